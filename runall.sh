#!/bin/bash
# Runs every registered check (quick by default) one after another; prints one line per check.
TIER=${1:-quick}
cd "$(dirname "$0")"
for id in $(python3 -c "import json; print(' '.join(c['property_id'] for c in json.load(open('MANIFEST.json'))['checks']))"); do
  out=$(./check $id $TIER 2>&1); rc=$?
  echo "$id rc=$rc $(echo "$out" | grep -E '^SUMMARY' | cut -c1-200)"
  echo "$out" | grep -E 'VIOLATION|KNOWN-FINDING|HARNESS' | cut -c1-300
done
