"""Operations executed inside worker processes (they touch the code under test)."""

from __future__ import annotations

import numpy as np


def op_ping():
    import jax

    return dict(devices=len(jax.devices()))


def _state_dict(spec, solver, st):
    from vf import sut

    d = dict(iteration=int(st.info.iteration), values=np.asarray(st.values, dtype=np.float64).tolist(),
             layout=list(sut.layout(solver)), n_pad=int(solver.n_pad))
    pol = None if st.policy is None else np.asarray(st.policy)
    if pol is not None:
        d["policy_shape"] = list(pol.shape)
        d["policy_idx"] = sut.policy_to_indices(spec, pol).tolist() if spec is not None else None
    if hasattr(st.info, "gain"):
        d["gain"] = float(st.info.gain)
    if hasattr(st.info, "value_history"):
        h = st.info.value_history
        d["history"] = None if h is None else np.asarray(h, dtype=np.float64).tolist()
        d["history_index"] = int(st.info.history_index)
    return d


def op_c03(spec, cfg, mbs_list, k, maxit):
    """Same spec under several max_batch_size values on this process's device count."""
    from vf import sut
    from vf.runner import sut_bucket

    problem = sut.make_problem(spec)
    out = []
    for mbs in mbs_list:
        c = dict(cfg, mbs=int(mbs))
        try:
            solver = sut.make_solver(problem, c)
            r = dict(mbs=int(mbs), devices=sut.n_devices())
            r["after_k"] = _state_dict(spec, solver, solver.solve(int(k)))
            r["final"] = _state_dict(spec, solver, solver.solve(int(maxit)))
        except Exception as e:
            r = dict(mbs=int(mbs), devices=sut.n_devices(), error=repr(e)[:600], bucket=sut_bucket(e))
        out.append(r)
    return out


def op_c20_precision(order, pkind, pparams, skind, sparams, iters):
    """Fresh process: construct problem then solver in the given order ('readme' = no 64-bit mode beforehand,
    'x64first' = jax_enable_x64 set before anything is created) and solve."""
    import importlib

    import jax

    if order == "x64first":
        jax.config.update("jax_enable_x64", True)
    from vf import ref_problems as rp
    from vf.tabular import SOLVERS

    mod, name = rp.SUT[pkind]
    pcls = getattr(importlib.import_module(mod), name)
    kw = {k: (tuple(v) if isinstance(v, list) else v) for k, v in pparams.items()}
    problem = pcls(**kw)
    smod, sname = SOLVERS[skind]
    scls = getattr(importlib.import_module(smod), sname)
    solver = scls(problem, **sparams)
    st = solver.solve(max_iterations=int(iters))
    v = st.values
    return dict(dtype=str(v.dtype), values=np.asarray(v, dtype=np.float64).tolist(), iteration=int(st.info.iteration),
                gamma_dtype=str(solver.gamma.dtype), x64=bool(jax.config.jax_enable_x64))
