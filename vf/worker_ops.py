"""Operations executed inside worker processes (they touch the code under test)."""

from __future__ import annotations

import numpy as np


def op_ping():
    import jax

    return dict(devices=len(jax.devices()))


def _state_dict(spec, solver, st):
    from vf import sut

    d = dict(iteration=int(st.info.iteration), values=np.asarray(st.values, dtype=np.float64).tolist(),
             layout=list(sut.layout(solver)), n_pad=int(solver.n_pad))
    pol = None if st.policy is None else np.asarray(st.policy)
    if pol is not None:
        d["policy_shape"] = list(pol.shape)
        d["policy_idx"] = sut.policy_to_indices(spec, pol).tolist() if spec is not None else None
    if hasattr(st.info, "gain"):
        d["gain"] = float(st.info.gain)
    if hasattr(st.info, "value_history"):
        h = st.info.value_history
        d["history"] = None if h is None else np.asarray(h, dtype=np.float64).tolist()
        d["history_index"] = int(st.info.history_index)
    return d


def op_c03(spec, cfg, mbs_list, k, maxit):
    """Same spec under several max_batch_size values on this process's device count."""
    from vf import sut
    from vf.runner import sut_bucket

    problem = sut.make_problem(spec)
    out = []
    for mbs in mbs_list:
        c = dict(cfg, mbs=int(mbs))
        try:
            solver = sut.make_solver(problem, c)
            r = dict(mbs=int(mbs), devices=sut.n_devices())
            r["after_k"] = _state_dict(spec, solver, solver.solve(int(k)))
            r["final"] = _state_dict(spec, solver, solver.solve(int(maxit)))
        except Exception as e:
            r = dict(mbs=int(mbs), devices=sut.n_devices(), error=repr(e)[:600], bucket=sut_bucket(e))
        out.append(r)
    return out


def op_c20_precision(order, pkind, pparams, skind, sparams, iters):
    """Fresh process: construct problem then solver in the given order ('readme' = no 64-bit mode beforehand,
    'x64first' = jax_enable_x64 set before anything is created) and solve."""
    import importlib

    import jax

    if order == "x64first":
        jax.config.update("jax_enable_x64", True)
    from vf import ref_problems as rp
    from vf.tabular import SOLVERS

    mod, name = rp.SUT[pkind]
    pcls = getattr(importlib.import_module(mod), name)
    kw = {k: (tuple(v) if isinstance(v, list) else v) for k, v in pparams.items()}
    problem = pcls(**kw)
    smod, sname = SOLVERS[skind]
    scls = getattr(importlib.import_module(smod), sname)
    solver = scls(problem, **sparams)
    st = solver.solve(max_iterations=int(iters))
    v = st.values
    f32 = sorted(k for k, a in vars(problem).items() if hasattr(a, "dtype") and str(getattr(a, "dtype", "")) == "float32")
    return dict(dtype=str(v.dtype), values=np.asarray(v, dtype=np.float64).tolist(), iteration=int(st.info.iteration),
                gamma_dtype=str(solver.gamma.dtype), x64=bool(jax.config.jax_enable_x64), problem_float32_arrays=f32)


# ------------------------------------------------------------------------------------------------
# checkpoint scenarios (C09-C12): one fresh process per segment


def _full_state(solver):
    """Complete runtime state through the documented solver_state."""
    st = solver.solver_state
    d = dict(iteration=int(st.info.iteration), values=np.asarray(st.values, dtype=np.float64).tolist(),
             values_dtype=str(np.asarray(st.values).dtype),
             policy=None if st.policy is None else np.asarray(st.policy).tolist())
    info = st.info
    if hasattr(info, "gain"):
        d["gain"] = float(info.gain)
    if hasattr(info, "value_history"):
        d["history"] = None if info.value_history is None else np.asarray(info.value_history, dtype=np.float64).tolist()
        d["history_index"] = int(info.history_index)
        d["period"] = int(info.period)
    if hasattr(info, "batch_order"):
        d["batch_order"] = None if info.batch_order is None else np.asarray(info.batch_order).tolist()
    return d


def _norm_config(c):
    import dataclasses

    from omegaconf import DictConfig, ListConfig, OmegaConf

    if isinstance(c, (DictConfig, ListConfig)):
        c = OmegaConf.to_container(c, resolve=True)
    if dataclasses.is_dataclass(c) and not isinstance(c, type):
        return {f.name: _norm_config(getattr(c, f.name)) for f in dataclasses.fields(c)}
    if isinstance(c, dict):
        return {str(k): _norm_config(v) for k, v in c.items()}
    if isinstance(c, (list, tuple)):
        return [_norm_config(v) for v in c]
    if isinstance(c, bool) or c is None or isinstance(c, str):
        return c
    if isinstance(c, (int, float, np.integer, np.floating)):
        return float(c)
    return str(c)


def _build_problem(pdesc):
    from vf import sut

    if pdesc["kind"] == "tabular":
        return sut.make_problem(pdesc["spec"])
    from vf import shipped

    return shipped.build_sut(pdesc["kind"], pdesc["params"])


def _solver_kwargs(sdesc):
    kw = dict(sdesc["params"])
    kw.setdefault("verbose", 0)
    return kw


def op_ckpt(scenario):
    """Build (or restore) a solver, run solve() calls, report states. See vf/checks/c10.py for the scenario format."""
    import os
    import signal
    import time

    import vf.sut  # noqa: F401  (64-bit mode first)
    from vf.tabular import solver_class

    sc = scenario
    plog = sc.get("progress_log")

    def log(msg):
        if plog:
            fd = os.open(plog, os.O_WRONLY | os.O_APPEND | os.O_CREAT)
            os.write(fd, (msg + "\n").encode())
            os.close(fd)

    out = dict(snapshots={}, saves=[], calls=[], error=None)
    scls = solver_class(sc["solver"]["kind"])
    rs = sc.get("restore")
    try:
        if rs and rs["route"] == "restore":
            kw = dict(rs.get("overrides") or {})
            if rs.get("step") is not None:
                kw["step"] = int(rs["step"])
            solver = scls.restore(rs["dir"], **kw)
        else:
            problem = _build_problem(sc["problem"])
            solver = scls(problem=problem, **_solver_kwargs(sc["solver"]))
            if rs and rs["route"] == "load":
                solver.load_checkpoint(rs["dir"], step=rs.get("step"))
    except BaseException as e:
        from vf.runner import sut_bucket

        out["error"] = dict(stage="build-or-restore", etype=type(e).__name__, msg=str(e)[:800], bucket=sut_bucket(e))
        return out
    log("built")
    out["restored"] = _full_state(solver) if rs else None
    if rs:
        log(f"restored {int(solver.iteration)}")
    out["config"] = _norm_config(solver.config)
    out["attrs"] = dict(checkpoint_frequency=int(getattr(solver, "checkpoint_frequency", -1)),
                        max_checkpoints=int(getattr(solver, "max_checkpoints", -1)),
                        enable_async_checkpointing=bool(getattr(solver, "enable_async_checkpointing", False)),
                        checkpoint_dir=str(getattr(solver, "checkpoint_dir", "")) if getattr(solver, "checkpoint_manager", None) is not None else None,
                        has_manager=getattr(solver, "checkpoint_manager", None) is not None,
                        problem_has_config=hasattr(solver.problem, "config"))
    kill = sc.get("kill")
    counter = dict(j=0)
    orig_save = solver.save

    def save(step):
        counter["j"] += 1
        j = counter["j"]
        if sc.get("snapshot", True):
            out["snapshots"][str(int(step))] = _full_state(solver)
        out["saves"].append(int(step))
        log(f"save-enter {j} {int(step)}")
        if kill and kill["family"] == "point" and kill["when"] == "before_save" and kill["j"] == j:
            os.kill(os.getpid(), signal.SIGKILL)
        orig_save(step)
        log(f"save-return {j} {int(step)}")
        if kill and kill["family"] == "point" and kill["when"] == "after_save" and kill["j"] == j:
            os.kill(os.getpid(), signal.SIGKILL)
        if kill and kill["family"] == "delay" and kill["j"] == j:
            t_end = time.perf_counter() + kill["delay_us"] / 1e6
            while time.perf_counter() < t_end:
                pass
            os.kill(os.getpid(), signal.SIGKILL)

    solver.save = save
    try:
        calls = list(sc.get("calls", []))
        if sc.get("until") is not None:
            # run up to a total iteration count (the restored iteration is only known here)
            k = int(sc["until"]) - int(solver.iteration)
            calls = [k] if k > 0 else []
        for k in calls:
            st = solver.solve(int(k))
            log(f"solve-return {int(st.info.iteration)}")
            out["calls"].append(dict(limit=int(k), iteration=int(st.info.iteration)))
        mgr = getattr(solver, "checkpoint_manager", None)
        if mgr is not None:
            mgr.wait_until_finished()
            log("wait-finished")
            if kill and kill["family"] == "point" and kill["when"] == "after_wait":
                os.kill(os.getpid(), signal.SIGKILL)
    except BaseException as e:
        from vf.runner import sut_bucket

        out["error"] = dict(stage="solve", etype=type(e).__name__, msg=str(e)[:800], bucket=sut_bucket(e))
        return out
    out["final"] = _full_state(solver)
    out["policy_none"] = solver.policy is None
    return out


def op_ckpt_read_all(problem, solver, dir, steps):
    """Load every given step of a checkpoint directory into one hand-built solver (load_checkpoint route)."""
    import vf.sut  # noqa: F401
    from vf.runner import sut_bucket
    from vf.tabular import solver_class

    prob = _build_problem(problem)
    s = solver_class(solver["kind"])(problem=prob, **_solver_kwargs(solver))
    out = {}
    for step in steps:
        try:
            s.load_checkpoint(dir, step=int(step))
            out[str(int(step))] = _full_state(s)
        except BaseException as e:
            out[str(int(step))] = dict(error=repr(e)[:600], bucket=sut_bucket(e))
    return out
