"""Hypothesis strategies for finite MDP specs (see vf.tabular) and solver configurations.

Everything is built by construction (no rejection): probabilities from integer weights, rewards as
half-integers times a power of ten, optional structure (duplicated action, near-tie action, absorbing
state, hub chain, phase-structured chain), several vector encodings.
"""

from __future__ import annotations

from hypothesis import strategies as st


def _factor_dims(draw, total_max, maxdim, each_max):
    d = draw(st.integers(1, maxdim))
    dims = []
    budget = total_max
    for _ in range(d):
        hi = max(1, min(each_max, budget))
        x = draw(st.integers(1, hi))
        dims.append(x)
        budget //= x
    return dims


def _prod(xs):
    p = 1
    for x in xs:
        p *= x
    return p


@st.composite
def mdp_specs(draw, max_states=10, max_actions=4, max_events=4, min_states=1, allow_v0=True, allow_pol0=True,
              structure=True, chain=None, reward_scales=(-2, 3), tie_unit=None, scale=None, sticky=None, allow_int_v0=False):
    """chain: None (free), "hub" (unichain aperiodic by construction), "phase:p" (periodic with period p)."""
    # --- encodings and sizes
    skind = draw(st.sampled_from(["ravel", "offset", "idcol", "halfstep"]))
    if skind == "halfstep":
        nS = draw(st.integers(min_states, max_states))
        sdims = [nS]
    elif skind == "idcol":
        nS = draw(st.integers(min_states, max_states))
        sdims = [draw(st.integers(1, 3))]
    else:
        sdims = _factor_dims(draw, max_states, 3, max_states)
        nS = _prod(sdims)
        if nS < min_states:
            sdims = [min_states]
            nS = min_states
    nA = draw(st.integers(1, max_actions))
    if nA % 2 == 0 and draw(st.booleans()):
        adims = [nA // 2, 2]
    elif draw(st.booleans()):
        adims = [1, nA]
    else:
        adims = [nA]
    edims = _factor_dims(draw, max_events, 3, max_events)
    nE = _prod(edims)
    if scale is None:
        k = draw(st.integers(reward_scales[0], reward_scales[1]))
        scale = 10.0 ** k

    def rewardval(s=0, a=0, e=0):
        # the index-dependent offset keeps Hypothesis's minimal (all-zero draws) example non-degenerate
        return (draw(st.integers(-16, 16)) + (3 * s + 5 * a + 7 * e) % 11 - 5) * 0.5 * scale

    period = None
    if chain is not None and chain.startswith("phase"):
        period = int(chain.split(":")[1])
    hub = draw(st.integers(0, nS - 1))
    if sticky is None:
        sticky = structure and chain is None and draw(st.integers(0, 2)) == 0
    if chain == "dag":
        sticky = False
    stick_w = draw(st.sampled_from([4, 10, 30])) if sticky else 0
    nxt, rew, prb = [], [], []
    for s in range(nS):
        rn, rr, rp = [], [], []
        for a in range(nA):
            w = [draw(st.integers(0, 4)) for _ in range(nE)]
            if sum(w) == 0:
                w[draw(st.integers(0, nE - 1))] = 1
            if period is not None:
                # states are arranged in phases s % period; every transition goes to the next phase
                ph = (s % period + 1) % period
                cands = [t for t in range(nS) if t % period == ph] or [s]
                n_e = [cands[draw(st.integers(0, len(cands) - 1))] for _ in range(nE)]
                # the first state of the next phase is a hub of that phase: one recurrent class under every policy
                j = draw(st.integers(0, nE - 1))
                n_e[j] = cands[0]
                if w[j] == 0:
                    w[j] = 1
            elif chain == "dag":
                # finite horizon: every transition goes to a higher state or to the absorbing, reward-free last state, so
                # value iteration becomes exactly stationary after at most nS sweeps whatever the discount factor
                n_e = [min(nS - 1, s + 1 + draw(st.integers(0, nS))) for _ in range(nE)]
            else:
                n_e = [(draw(st.integers(0, nS - 1)) + s + a + e_) % nS for e_ in range(nE)]
            if sticky:
                # slowly mixing: most of the mass stays in the current state
                n_e[0] = s
                w[0] += stick_w
            if chain == "hub":
                # every (s,a) reaches the hub with positive probability; the hub has a self-loop
                j = draw(st.integers(0, nE - 1))
                n_e[j] = hub
                if w[j] == 0:
                    w[j] = 1
                if s == hub:
                    n_e[j] = hub
            tot = float(sum(w))
            rn.append(n_e)
            rp.append([x / tot for x in w])
            rr.append([0.0 if (chain == "dag" and s == nS - 1) else rewardval(s, a, e_) for e_ in range(nE)])
        nxt.append(rn)
        rew.append(rr)
        prb.append(rp)
    flags = ["sticky"] if sticky else []
    if structure and nA >= 2:
        kind = draw(st.sampled_from(["none", "dup", "tie", "tie", "dup+tie"]))
        if "dup" in kind:
            a, b = draw(st.permutations(range(nA)))[:2]
            for s in range(nS):
                nxt[s][b] = list(nxt[s][a]); rew[s][b] = list(rew[s][a]); prb[s][b] = list(prb[s][a])
            flags.append("dup-action")
        if "tie" in kind:
            a, b = draw(st.permutations(range(nA)))[:2]
            # b is a copy of a whose reward differs by a small generated amount in some states
            mant = draw(st.sampled_from([0.0, 0.01, 0.1, 0.3, 0.6, 0.9, 1.1, 2.0, 5.0]))
            sign = draw(st.sampled_from([-1.0, 1.0]))
            if tie_unit is None:
                tie_u = draw(st.sampled_from([1e-6, 1e-4, 1e-3, 1e-2, 1e-1])) * scale
            else:
                tie_u = tie_unit * draw(st.sampled_from([0.1, 0.5, 1.0, 1.0, 2.0]))
            mask = [draw(st.booleans()) for _ in range(nS)]
            for s in range(nS):
                nxt[s][b] = list(nxt[s][a]); prb[s][b] = list(prb[s][a])
                rew[s][b] = [r + (sign * mant * tie_u if mask[s] else 0.0) for r in rew[s][a]]
            flags.append("near-tie")
    if structure and period is None and chain not in ("hub", "dag") and draw(st.integers(0, 3)) == 0:
        s = draw(st.integers(0, nS - 1))
        for a in range(nA):
            nxt[s][a] = [s] * nE
        flags.append("absorbing")
    v0 = None
    v0_int = False
    if allow_v0 and draw(st.integers(0, 2)) == 0:
        vs = draw(st.sampled_from([1.0, 10.0, 100.0])) * scale
        v0 = [draw(st.integers(-10, 10)) * 0.5 * vs for _ in range(nS)]
        flags.append("v0")
        if allow_int_v0 and all(float(x).is_integer() and abs(x) < 2**30 for x in v0) and draw(st.integers(0, 2)) == 0:
            v0_int = True  # initial_value returns an integer-typed estimate (e.g. a count read from the state vector)
            flags.append("v0-int-dtype")
    pol0 = None
    if allow_pol0 and draw(st.integers(0, 2)) == 0:
        pol0 = [draw(st.integers(0, nA - 1)) for _ in range(nS)]
        flags.append("pol0")
    prob_shape = draw(st.sampled_from(["scalar", "scalar", "array1"]))
    return dict(nS=nS, nA=nA, nE=nE, next=nxt, reward=rew, prob=prb, v0=v0, pol0=pol0, scale=scale, flags=flags,
                enc=dict(state=skind, sdims=sdims, adims=adims, edims=edims, prob_shape=prob_shape,
                         **({"v0_dtype": "int"} if v0_int else {})))


@st.composite
def wide_specs(draw):
    """MDPs with ONE very wide axis (more than 1024 or 2048 actions, or events) and otherwise tiny: sizes beyond any
    internal chunk or block length. Tables are arithmetic functions of a few drawn coefficients (no per-entry draws);
    the wide axis may start at 1 (aoff/eoff, see vf.tabular) so that an invented all-zero action or event is poisonous."""
    wide = draw(st.sampled_from(["actions", "actions", "events"]))
    n_wide = draw(st.sampled_from([1025, 1030, 1500, 2049]))
    nS = draw(st.integers(1, 4))
    n_other = draw(st.integers(1, 3))
    nA, nE = (n_wide, n_other) if wide == "actions" else (n_other, n_wide)
    k = [draw(st.integers(0, 12)) for _ in range(9)]
    scale = 10.0 ** draw(st.integers(-1, 2))
    nxt, rew, prb = [], [], []
    for s in range(nS):
        rn, rr, rp = [], [], []
        for a in range(nA):
            n_e = [(s * (k[0] + 1) + a * (k[1] + 1) + e * (k[2] + 1) + k[3]) % nS for e in range(nE)]
            r_e = [(((a * (k[4] + 3) + s * (k[5] + 5) + e * (k[6] + 7)) % 97) - 48) * 0.5 * scale for e in range(nE)]
            w = [1 + (a * (k[7] + 1) + e * (k[8] + 2) + s) % 5 for e in range(nE)]
            tot = float(sum(w))
            rn.append(n_e); rr.append(r_e); rp.append([x / tot for x in w])
        nxt.append(rn); rew.append(rr); prb.append(rp)
    aoff = draw(st.sampled_from([0, 1, 1]))
    eoff = draw(st.sampled_from([0, 1, 1]))
    skind = draw(st.sampled_from(["ravel", "offset"]))
    return dict(nS=nS, nA=nA, nE=nE, next=nxt, reward=rew, prob=prb, v0=None, pol0=None, scale=scale,
                flags=[f"wide-{wide}", f"wide-{n_wide}"] + (["zero-action-foreign"] if aoff else []) + (["zero-event-foreign"] if eoff else []),
                enc=dict(state=skind, sdims=[nS], adims=[nA], edims=[nE], prob_shape="scalar", aoff=aoff, eoff=eoff))


gammas_discounted = st.one_of(
    st.sampled_from([0.05, 0.3, 0.5, 0.8, 0.9, 0.95, 0.99]),
    st.floats(0.02, 0.97).map(lambda x: round(x, 4)),
)


def spec_classes(spec):
    enc = spec["enc"]
    cl = list(spec.get("flags", []))
    cl.append("state-" + enc["state"])
    if len(enc["adims"]) == 2:
        cl.append("adim2")
    if len(enc["edims"]) >= 2:
        cl.append("edim>=2")
    if enc.get("prob_shape") == "array1":
        cl.append("prob-array1")
    if spec["nE"] == 1:
        cl.append("nE=1")
    return cl


def add_worse_copy(spec, src, dst, gap):
    """Pure post-processing: action `dst` becomes a copy of action `src` whose reward is lower by `gap` in EVERY state, so
    that choosing dst instead of src everywhere costs gap / (1 - gamma). With dst < src the worse copy has the LOWER index
    (a tolerance-based or first-match tie-break then prefers it)."""
    import copy

    out = copy.deepcopy(spec)
    for s in range(spec["nS"]):
        out["next"][s][dst] = list(spec["next"][s][src])
        out["prob"][s][dst] = list(spec["prob"][s][src])
        out["reward"][s][dst] = [float(r - gap) for r in spec["reward"][s][src]]
    out["flags"] = list(spec.get("flags", [])) + ["worse-copy-" + ("lower-index" if dst < src else "higher-index")]
    return out


def add_near_optimal_action(spec, gamma, deltas):
    """Post-process a spec (pure function, numpy only): for every state s with deltas[s] is not None, shift the
    rewards of the LAST action so that its optimal Q-value is exactly V*(s) - deltas[s] while its transitions stay
    different from the other actions'. This is the only way early stopping can change the returned policy: copies of
    an action with a shifted reward are ordered the same way under every value estimate."""
    import copy

    import numpy as np

    from vf import ref_mdp

    nS, nA, nE = spec["nS"], spec["nA"], spec["nE"]
    if nA < 2 or all(d is None for d in deltas):
        return spec
    b = nA - 1
    tmp = copy.deepcopy(spec)
    big = 1e6 * max(1.0, float(np.max(np.abs(np.asarray(spec["reward"], dtype=float)))))
    for s in range(nS):
        if deltas[s] is not None:
            tmp["reward"][s][b] = [-big] * nE
    P, R = ref_mdp.dense(tmp)
    Vstar, _ = ref_mdp.optimal_discounted(P, R, gamma)
    out = copy.deepcopy(spec)
    nxt, rew, prb = ref_mdp.arrays(spec)
    for s in range(nS):
        if deltas[s] is None:
            continue
        q = float(np.sum(prb[s, b] * (rew[s, b] + gamma * Vstar[nxt[s, b]])))
        shift = float(Vstar[s] - deltas[s] - q)
        out["reward"][s][b] = [float(r + shift) for r in spec["reward"][s][b]]
    out["flags"] = list(spec.get("flags", [])) + ["near-optimal-action"]
    return out
