"""Independent scalar (pure Python + scipy) models of the four shipped problems, written from the class
docstrings. Never imports mdpax. Each model gives spaces, one-step dynamics and event probabilities."""

from __future__ import annotations

import itertools
import math

import numpy as np
import scipy.stats


class RefError(Exception):
    """The reference failed its own self-check (harness error)."""


def box(mins, maxs):
    return [list(v) for v in itertools.product(*[range(a, b + 1) for a, b in zip(mins, maxs)])]


# ------------------------------------------------------------------------------------ Forest


class ForestRef:
    """pymdptoolbox forest example (the class documents itself as an adaptation of it): cutting pays r2 in the
    oldest state, 1 in the middle ages and 0 at age 0; waiting pays r1 in the oldest state."""

    def __init__(self, S=3, r1=4.0, r2=2.0, p=0.1):
        self.S, self.r1, self.r2, self.p = int(S), float(r1), float(r2), float(p)

    def states(self):
        return [[i] for i in range(self.S)]

    def actions(self):
        return [[0], [1]]

    def events(self):
        return [[0], [1]]

    def step(self, s, a, e):
        age, cut, fire = s[0], a[0] == 1, e[0] == 1
        if cut:
            r = self.r2 if age == self.S - 1 else (0.0 if age == 0 else 1.0)
            return [0], r
        r = self.r1 if age == self.S - 1 else 0.0
        if fire:
            return [0], r
        return [min(age + 1, self.S - 1)], r

    def prob(self, s, a, e):
        if a[0] == 1:
            return 1.0 if e[0] == 0 else 0.0
        return self.p if e[0] == 1 else 1.0 - self.p

    def initial_value(self, s):
        return 0.0

    def defined(self, s, a, e):
        return True


# ------------------------------------------------------------------------------------ De Moor


def _issue(stock, demand, oldest_first):
    """Unit by unit issuing. stock: list newest..oldest. Returns (stock_after, issued, unmet)."""
    st = list(stock)
    issued = 0
    for _ in range(int(demand)):
        order = range(len(st) - 1, -1, -1) if oldest_first else range(len(st))
        for j in order:
            if st[j] > 0:
                st[j] -= 1
                issued += 1
                break
    return st, issued, int(demand) - issued


class DeMoorRef:
    def __init__(self, max_demand=100, demand_gamma_mean=4.0, demand_gamma_cov=0.5, max_useful_life=2, lead_time=1,
                 max_order_quantity=10, variable_order_cost=3.0, shortage_cost=5.0, wastage_cost=7.0, holding_cost=1.0,
                 issue_policy="lifo"):
        self.D, self.mean, self.cov = int(max_demand), float(demand_gamma_mean), float(demand_gamma_cov)
        self.m, self.L, self.Q = int(max_useful_life), int(lead_time), int(max_order_quantity)
        self.cv, self.cs, self.cw, self.ch = map(float, (variable_order_cost, shortage_cost, wastage_cost, holding_cost))
        self.fifo = issue_policy == "fifo"
        self._p = None

    def states(self):
        d = self.L - 1 + self.m
        return box([0] * d, [self.Q] * d)

    def actions(self):
        return [[q] for q in range(self.Q + 1)]

    def events(self):
        return [[d] for d in range(self.D + 1)]

    def step(self, s, a, e):
        L, m = self.L, self.m
        transit, stock = list(s[: L - 1]), list(s[L - 1:])
        q, d = a[0], e[0]
        after, issued, unmet = _issue(stock, d, oldest_first=self.fifo)
        expired = after[m - 1]
        holding = sum(after[: m - 1])
        pipeline = [q] + transit
        received = pipeline[-1]
        new_transit = pipeline[: L - 1]
        closing = [received] + after[: m - 1]
        # unit conservation (self-check of the reference)
        if sum(stock) + received != issued + expired + sum(closing):
            raise RefError("De Moor reference violates unit conservation")
        reward = -(self.cv * q + self.cs * unmet + self.cw * expired + self.ch * holding)
        return new_transit + closing, reward

    def demand_pmf(self):
        if self._p is None:
            shape = 1.0 / self.cov**2
            scale = self.mean * self.cov**2
            g = scipy.stats.gamma(a=shape, scale=scale)
            p = np.zeros(self.D + 1)
            for d in range(self.D + 1):
                lo = 0.0 if d == 0 else d - 0.5
                p[d] = g.cdf(d + 0.5) - g.cdf(lo)
            p[self.D] += g.sf(self.D + 0.5)  # tail folded into the maximum demand
            self._p = p
        return self._p

    def prob(self, s, a, e):
        return float(self.demand_pmf()[e[0]])

    def initial_value(self, s):
        return 0.0

    def defined(self, s, a, e):
        return True


# ------------------------------------------------------------------------------------ Hendrix


class HendrixRef:
    def __init__(self, max_useful_life=2, demand_poisson_mean_a=5.0, demand_poisson_mean_b=5.0,
                 substitution_probability=0.5, variable_order_cost_a=0.5, variable_order_cost_b=0.5, sales_price_a=1.0,
                 sales_price_b=1.0, max_order_quantity_a=10, max_order_quantity_b=10):
        self.m = int(max_useful_life)
        self.la, self.lb, self.q = float(demand_poisson_mean_a), float(demand_poisson_mean_b), float(substitution_probability)
        self.ca, self.cb, self.pa, self.pb = map(float, (variable_order_cost_a, variable_order_cost_b, sales_price_a, sales_price_b))
        self.Qa, self.Qb = int(max_order_quantity_a), int(max_order_quantity_b)
        self.max_stock_a, self.max_stock_b = self.Qa * self.m, self.Qb * self.m
        # the model's own truncation point for demand (documented in the source as m * (max Q + 2))
        self.trunc = self.m * (max(self.Qa, self.Qb) + 2)
        self._law = {}

    def states(self):
        return box([0] * (2 * self.m), [self.Qa] * self.m + [self.Qb] * self.m)

    def actions(self):
        return box([0, 0], [self.Qa, self.Qb])

    def events(self):
        return box([0, 0], [self.max_stock_a, self.max_stock_b])

    def defined(self, s, a, e):
        """The documented model defines the outcome when no more is issued than is in stock."""
        return e[0] <= sum(s[: self.m]) and e[1] <= sum(s[self.m:])

    def step(self, s, a, e):
        m = self.m
        sa, sb = list(s[:m]), list(s[m:])
        ia, ib = e
        after_a, got_a, _ = _issue(sa, ia, oldest_first=True)
        after_b, got_b, _ = _issue(sb, ib, oldest_first=True)
        reward = self.pa * ia + self.pb * ib - (self.ca * a[0] + self.cb * a[1])
        closing_a = [a[0]] + after_a[: m - 1]
        closing_b = [a[1]] + after_b[: m - 1]
        if self.defined(s, a, e):
            exp_a, exp_b = after_a[m - 1], after_b[m - 1]
            if sum(sa) + a[0] != ia + exp_a + sum(closing_a) or sum(sb) + a[1] != ib + exp_b + sum(closing_b):
                raise RefError("Hendrix reference violates unit conservation")
        return closing_a + closing_b, reward

    def law(self, stock_a, stock_b):
        """Joint law of (min(stock_a, d_a + u), min(stock_b, d_b)), u ~ Binomial((d_b - stock_b)^+, q), by brute
        force summation far into the Poisson tails. Returns (matrix[ia, ib], tail) where tail is the Poisson mass
        beyond the model's own truncation point (the allowed deviation)."""
        key = (stock_a, stock_b)
        if key in self._law:
            return self._law[key]
        Na = int(scipy.stats.poisson.ppf(1 - 1e-13, self.la)) + 5
        Nb = int(scipy.stats.poisson.ppf(1 - 1e-13, self.lb)) + 5
        pa = scipy.stats.poisson.pmf(np.arange(Na + 1), self.la)
        pb = scipy.stats.poisson.pmf(np.arange(Nb + 1), self.lb)
        M = np.zeros((self.max_stock_a + 1, self.max_stock_b + 1))
        for db in range(Nb + 1):
            ib = min(stock_b, db)
            excess = max(db - stock_b, 0)
            pu = scipy.stats.binom.pmf(np.arange(excess + 1), excess, self.q)
            # distribution of z = d_a + u
            pz = np.convolve(pa, pu)
            below = pz[:stock_a]
            M[: len(below), ib] += pb[db] * below
            M[stock_a, ib] += pb[db] * pz[stock_a:].sum()
        tail = float(scipy.stats.poisson.sf(self.trunc - 1, self.lb) + scipy.stats.poisson.sf(self.trunc - 1, self.la)
                     + scipy.stats.poisson.sf(self.trunc - stock_b - 1, self.lb) * 0)
        if abs(M.sum() - 1.0) > 1e-9:
            raise RefError(f"Hendrix reference law sums to {M.sum()}")
        self._law[key] = (M, tail)
        return self._law[key]

    def prob(self, s, a, e):
        M, _ = self.law(sum(s[: self.m]), sum(s[self.m:]))
        return float(M[e[0], e[1]])

    def initial_value(self, s):
        M, _ = self.law(sum(s[: self.m]), sum(s[self.m:]))
        ia = np.arange(M.shape[0])[:, None]
        ib = np.arange(M.shape[1])[None, :]
        return float(np.sum(M * (self.pa * ia + self.pb * ib)))


# ------------------------------------------------------------------------------------ Mirjalili


class MirjaliliRef:
    def __init__(self, max_demand=20, weekday_demand_negbin_n=(3.5, 11.0, 7.2, 11.1, 5.9, 5.5, 2.2),
                 weekday_demand_negbin_delta=(5.7, 6.9, 6.5, 6.2, 5.8, 3.3, 3.4), max_useful_life=3,
                 useful_life_at_arrival_distribution_c_0=(1.0, 0.5), useful_life_at_arrival_distribution_c_1=(0.0, 0.0),
                 max_order_quantity=20, variable_order_cost=0.0, fixed_order_cost=10.0, shortage_cost=20.0,
                 wastage_cost=5.0, holding_cost=1.0):
        self.D, self.m, self.Q = int(max_demand), int(max_useful_life), int(max_order_quantity)
        self.n = [float(x) for x in weekday_demand_negbin_n]
        self.delta = [float(x) for x in weekday_demand_negbin_delta]
        self.c0 = [float(x) for x in useful_life_at_arrival_distribution_c_0]
        self.c1 = [float(x) for x in useful_life_at_arrival_distribution_c_1]
        self.cv, self.cf, self.cs, self.cw, self.ch = map(float, (variable_order_cost, fixed_order_cost, shortage_cost,
                                                                   wastage_cost, holding_cost))
        self._dp = {}

    def states(self):
        return box([0] * self.m, [6] + [self.Q] * (self.m - 1))

    def actions(self):
        return [[q] for q in range(self.Q + 1)]

    def receipts(self):
        return [list(r) for r in itertools.product(range(self.Q + 1), repeat=self.m) if sum(r) <= self.Q]

    def events(self):
        # documented: demand, then stock received by age; enumeration order: receipts outer, demand inner
        return [[d] + r for r in self.receipts() for d in range(self.D + 1)]

    def defined(self, s, a, e):
        return True

    def step(self, s, a, e):
        m, Q = self.m, self.Q
        wd, stock = s[0], list(s[1:])
        q, d, rec = a[0], e[0], list(e[1:])
        opening = [0] + stock
        accepted = []
        after_delivery = []
        for j in range(m):
            tot = opening[j] + rec[j]
            capped = min(tot, Q)  # each age class holds at most max_order_quantity units (state space bound)
            accepted.append(capped - opening[j])
            after_delivery.append(capped)
        after, issued, unmet = _issue(after_delivery, d, oldest_first=True)
        expired = after[m - 1]
        holding = sum(after)  # including units about to expire
        closing = after[: m - 1]
        if sum(opening) + sum(accepted) != issued + expired + sum(closing):
            raise RefError("Mirjalili reference violates unit conservation")
        reward = -(self.cv * q + self.cf * (1.0 if q > 0 else 0.0) + self.cs * unmet + self.cw * expired + self.ch * holding)
        return [(wd + 1) % 7] + closing, reward

    def demand_pmf(self, wd):
        if wd not in self._dp:
            n, delta = self.n[wd], self.delta[wd]
            nb = scipy.stats.nbinom(n, n / (n + delta))
            p = nb.pmf(np.arange(self.D + 1))
            p[self.D] += nb.sf(self.D)
            self._dp[wd] = p
        return self._dp[wd]

    def receipt_prob(self, q, rec):
        if sum(rec) != q:
            return 0.0
        # logits (0, c0 + c1*q) are for useful life 1 (oldest) .. m (freshest); the vector is newest-first
        logits = [0.0] + [c0 + c1 * q for c0, c1 in zip(self.c0, self.c1)]
        mx = max(logits)
        w = [math.exp(l - mx) for l in logits]
        tot = sum(w)
        probs_by_life = [x / tot for x in w]  # index 0 = useful life 1 (oldest)
        probs_vec = probs_by_life[::-1]  # newest first
        return float(scipy.stats.multinomial.pmf(rec, n=q, p=probs_vec))

    def prob(self, s, a, e):
        return float(self.demand_pmf(s[0])[e[0]]) * self.receipt_prob(a[0], list(e[1:]))

    def initial_value(self, s):
        return 0.0


REFS = {"forest": ForestRef, "de_moor": DeMoorRef, "hendrix": HendrixRef, "mirjalili": MirjaliliRef}

SUT = {
    "forest": ("mdpax.problems.forest", "Forest"),
    "de_moor": ("mdpax.problems.perishable_inventory.de_moor_single_product", "DeMoorSingleProductPerishable"),
    "hendrix": ("mdpax.problems.perishable_inventory.hendrix_two_product", "HendrixTwoProductPerishable"),
    "mirjalili": ("mdpax.problems.perishable_inventory.mirjalili_platelet", "MirjaliliPlateletPerishable"),
}


def sizes(kind, params):
    """Documented space sizes (S, A, E) without building anything."""
    if kind == "forest":
        return int(params.get("S", 3)), 2, 2
    if kind == "de_moor":
        Q, m, L, D = (params.get(k, d) for k, d in (("max_order_quantity", 10), ("max_useful_life", 2), ("lead_time", 1),
                                                      ("max_demand", 100)))
        return (Q + 1) ** (m + L - 1), Q + 1, D + 1
    if kind == "hendrix":
        m, Qa, Qb = (params.get(k, d) for k, d in (("max_useful_life", 2), ("max_order_quantity_a", 10),
                                                     ("max_order_quantity_b", 10)))
        return (Qa + 1) ** m * (Qb + 1) ** m, (Qa + 1) * (Qb + 1), (Qa * m + 1) * (Qb * m + 1)
    if kind == "mirjalili":
        m, Q, D = (params.get(k, d) for k, d in (("max_useful_life", 3), ("max_order_quantity", 20), ("max_demand", 20)))
        return 7 * (Q + 1) ** (m - 1), Q + 1, (D + 1) * math.comb(Q + m, m)
    raise ValueError(kind)
