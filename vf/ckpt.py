"""Shared pieces of the checkpoint checks C09-C12: scenario generators, directory inspection, worker calls."""

from __future__ import annotations

import hashlib
import os
import shutil
import uuid
from pathlib import Path

from vf import workers
from vf.runner import WORK, HarnessError

SCRATCH = WORK / "ckpt"


def new_dir(tag="c"):
    d = SCRATCH / f"{tag}-{os.getpid()}-{uuid.uuid4().hex[:10]}"
    d.mkdir(parents=True, exist_ok=True)
    return d


def cleanup(d):
    shutil.rmtree(d, ignore_errors=True)


def steps_in(d: Path):
    """(committed steps, temporary entries) in a checkpoint directory."""
    done, tmp = [], []
    d = Path(d)
    if not d.is_dir():
        return done, tmp
    for p in d.iterdir():
        if p.is_dir():
            if p.name.isdigit():
                done.append(int(p.name))
            else:
                tmp.append(p.name)
    return sorted(done), sorted(tmp)


def tree_hash(d: Path):
    """Content hash of every file under d (relative path + bytes)."""
    d = Path(d)
    h = {}
    if not d.exists():
        return h
    for p in sorted(d.rglob("*")):
        if p.is_file():
            h[str(p.relative_to(d))] = hashlib.sha1(p.read_bytes()).hexdigest()
    return h


def run(scenario, timeout=900, devices=1, wrapper=None):
    rep, rc, err = workers.run_oneshot("ckpt", devices=devices, timeout=timeout, python_args=wrapper, scenario=scenario)
    return rep, rc, err


def run_ok(scenario, **kw):
    """Run a scenario that is expected to finish; a missing reply is a harness error."""
    rep, rc, err = run(scenario, **kw)
    if rep is None:
        raise HarnessError(f"checkpoint worker produced no reply (rc={rc}): {err[-1500:]}")
    if not rep["ok"]:
        raise HarnessError(f"checkpoint worker failed outside the code under test: {rep.get('error')}\n{rep.get('tb')}")
    return rep["result"]


# ------------------------------------------------------------------------------------------------ generators

SHIPPED_SMALL = [
    ("forest", dict(S=4, r1=4.0, r2=2.0, p=0.1)),
    ("forest", dict(S=6, r1=7.5, r2=1.0, p=0.3)),
    ("de_moor", dict(max_demand=4, demand_gamma_mean=1.5, demand_gamma_cov=0.6, max_useful_life=2, lead_time=1,
                     max_order_quantity=2, issue_policy="fifo")),
    ("de_moor", dict(max_demand=3, demand_gamma_mean=1.0, demand_gamma_cov=0.5, max_useful_life=1, lead_time=2,
                     max_order_quantity=2, issue_policy="lifo")),
    ("hendrix", dict(max_useful_life=1, demand_poisson_mean_a=1.0, demand_poisson_mean_b=0.7, substitution_probability=0.5,
                     max_order_quantity_a=2, max_order_quantity_b=1)),
    ("mirjalili", dict(max_demand=3, max_useful_life=2, useful_life_at_arrival_distribution_c_0=[0.5],
                       useful_life_at_arrival_distribution_c_1=[-0.2], max_order_quantity=2,
                       weekday_demand_negbin_n=[3.5, 2.0, 1.2, 4.1, 5.9, 5.5, 2.2],
                       weekday_demand_negbin_delta=[1.7, 0.9, 1.5, 1.2, 0.8, 1.3, 1.4])),
]


def problem_descs(allow_tabular=True, allow_shipped=True, rot=0):
    from hypothesis import strategies as st

    from vf.gen_mdp import mdp_specs

    opts = []
    if allow_tabular:
        opts.append(mdp_specs(max_states=6, min_states=2, max_actions=3, max_events=3, allow_pol0=False, chain="hub",
                              reward_scales=(0, 0)).flatmap(
            lambda s: st.sampled_from([None, None, "none", "target_none"]).map(
                lambda c: dict(kind="tabular", spec=dict(s, enc=dict(s["enc"], **({"config_attr": c} if c else {})))))))
    if allow_shipped:
        sh = SHIPPED_SMALL[rot % len(SHIPPED_SMALL):] + SHIPPED_SMALL[: rot % len(SHIPPED_SMALL)]
        opts.append(st.sampled_from(sh).map(lambda kp: dict(kind=kp[0], params=dict(kp[1]))))
    if rot % 2 == 1:
        opts = opts[::-1]  # Hypothesis tries the simplest example first: rotate what 'simplest' means per shard
    return st.one_of(*opts)


def solver_descs(kinds=("vi", "pi", "rvi", "pvi", "sa"), allow_shuffle=False, rot=0):
    from hypothesis import strategies as st

    @st.composite
    def descs(draw):
        ks = list(kinds)
        ks = ks[rot % len(ks):] + ks[: rot % len(ks)]
        kind = draw(st.sampled_from(ks))
        p = dict(epsilon=draw(st.sampled_from([1e-4, 1e-3, 1e-2])), max_batch_size=draw(st.sampled_from([2, 3, 64])))
        if kind != "rvi":
            p["gamma"] = draw(st.sampled_from([0.9, 0.8, 0.95]))
        if kind in ("vi", "pi", "sa"):
            p["convergence_test"] = draw(st.sampled_from(["span", "max_diff"]))
        if kind == "pvi":
            p["period"] = draw(st.integers(1, 3))
            # False: multi-call histories after convergence with a cleared history are known finding F10 (C08),
            # excluded here by construction
            p["clear_value_history_on_convergence"] = False
        if kind == "pi":
            p["max_eval_iter"] = draw(st.sampled_from([3, 50, 400]))
            p["reset_values_for_each_policy_eval"] = draw(st.booleans())
        if draw(st.integers(0, 4)) == 0:
            p["jax_double_precision"] = False  # (64-bit mode is already on in the worker process: values stay float64)
        if kind == "sa":
            p["shuffle_states"] = draw(st.booleans()) if allow_shuffle else False
            p["random_seed"] = draw(st.integers(0, 99))
        return dict(kind=kind, params=p)

    return descs()


def with_ckpt(sdesc, d, freq, keep, async_):
    s = dict(kind=sdesc["kind"], params=dict(sdesc["params"]))
    s["params"].update(checkpoint_dir=str(d) if d is not None else None, checkpoint_frequency=int(freq),
                       max_checkpoints=int(keep), enable_async_checkpointing=bool(async_))
    return s


def state_equal(a, b, fields=("iteration", "values", "policy", "gain", "history", "history_index", "period")):
    """Bit-for-bit comparison of two state dicts; returns the first differing field or None."""
    for f in fields:
        if f in a or f in b:
            if a.get(f) != b.get(f):
                # NaN-tolerant list comparison
                import numpy as np

                x, y = a.get(f), b.get(f)
                try:
                    if x is not None and y is not None and np.array_equal(np.asarray(x, dtype=float), np.asarray(y, dtype=float),
                                                                           equal_nan=True):
                        continue
                except Exception:
                    pass
                return f
    return None
