"""Worker process: reads JSON requests on stdin, answers '@@VF@@'+JSON on stdout. Ops live in vf.worker_ops."""

from __future__ import annotations

import json
import sys
import traceback


def main():
    oneshot = "--oneshot" in sys.argv
    from vf import worker_ops

    for line in sys.stdin:
        line = line.strip()
        if not line:
            continue
        req = json.loads(line)
        op = req.pop("op")
        try:
            res = getattr(worker_ops, "op_" + op)(**req)
            out = dict(ok=True, result=res)
        except BaseException as e:  # reported to the parent, which decides what it means
            from vf.runner import sut_bucket

            out = dict(ok=False, error=repr(e)[:1500], etype=type(e).__name__, bucket=sut_bucket(e),
                       tb=traceback.format_exc()[-3000:])
        from vf.runner import _json_default

        sys.stdout.write("@@VF@@" + json.dumps(out, default=_json_default) + "\n")
        sys.stdout.flush()
        if oneshot:
            break


if __name__ == "__main__":
    main()
