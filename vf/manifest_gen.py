"""Writes /verif/MANIFEST.json from the table below (run: /venv/bin/python -m vf.manifest_gen)."""
import json
from pathlib import Path

ROOT = Path(__file__).resolve().parent.parent

BASELINE_OFF = ("cd /repo && env -u MDPAX_VERIF JAX_PLATFORMS=cpu /venv/bin/python -m pytest -ra -q -p no:cacheprovider "
                "--timeout=900 --continue-on-collection-errors")

def _mdp(text, note, technique, design):
    return dict(category="exploration", text=text, note=note, technique=technique, design=design)


CHECKS = {
    "C01": _mdp("Generated finite MDPs x solver configurations (VI, PI, semi-async; both tests; 1-3 emulated devices) run to "
                "convergence and judged against exact V* / V_pi (linear solves) and the a-priori bounds of the documented "
                "stopping rules. Sampling only: no claim outside the generated cases.",
                "Trusts numpy linear algebra; bounds re-derived from the documented thresholds; tolerance 1e-9 relative.",
                "Hypothesis generated MDPs, exact-solution oracle (Howard PI + linear solves) with a-priori error bounds", "2/C01"),
    "C02": _mdp("Generated MDPs x arbitrary (V, gamma) pairs: one sweep compared state by state with a numpy Bellman backup; "
                "greedy policy validity; shift / monotonicity / contraction laws on the implementation's outputs. One case in twelve has an action or "
                "event axis of 1025..2049 entries whose vectors may start at 1, foreign vectors being answered with a poison reward.",
                "A sweep is observed through documented attributes (values, gamma, solve(1)); self-checked per case.",
                "Hypothesis generated MDPs and value vectors, numpy reference backup + metamorphic relations", "2/C02"),
    "C03": _mdp("Generated MDPs (1..200 states) x solver x 2-3 batch sizes executed by persistent workers under 1, 2, 3, 4 and 8 emulated "
                "devices; every layout compared with the numpy reference and with every other layout (values after k sweeps, convergence "
                "iteration, gain, history, exact value of the returned policy; semi-async: error bound for every partition).",
                "Emulated host devices stand in for accelerators; borderline stopping sweeps are dropped.",
                "Hypothesis generated MDPs x layouts, cross-layout differential + numpy reference", "2/C03"),
    "C04": _mdp("Generated unichain aperiodic MDPs (by construction or brute-force verified): gain, policy gain, optimality-equation "
                "residual and n-independent boundedness of the relative values against an exact average-reward oracle.",
                "Unichain by construction/enumeration; Howard PI cross-checked by policy enumeration on small cases.",
                "Hypothesis generated unichain MDPs, exact gain oracle (Howard PI / enumeration / stationary distributions)", "2/C04"),
    "C05": _mdp("Generated MDPs x arbitrary injected policies: evaluation compared with a numpy replica of the documented "
                "loop and with the exact V_pi; termination compared with the policy sequence of a stepped twin; initial policy clause.",
                "Borderline evaluation sweeps (measure within rounding of the threshold) are dropped.",
                "Hypothesis generated MDPs and policies, reference evaluation loop + stepped-twin differential", "2/C05"),
    "C06": _mdp("Generated MDPs x partitions x seeds: every sweep compared with a numpy block Gauss-Seidel sweep driven by the "
                "solver's reported layout and the hook-recorded order; permutation, freshness, reproducibility and fixed-point clauses.",
                "The per-sweep order is observed through the guarded hook (MDPAX_VERIF=1).",
                "Hypothesis generated schedules (partition x seed), numpy block Gauss-Seidel reference model", "2/C06"),
    "C07": _mdp("Generated MDPs (incl. unichain periodic chains by construction) x period x gamma: stopping iteration, values, "
                "history buffer and greedy policy against numpy VI iterates and the documented measure; gain clause against an exact gain oracle.",
                "Discounted measure is ill-conditioned; borderline band grows with gamma^-n.",
                "Hypothesis generated MDPs, reference VI iterates + documented measure, exact average-reward oracle", "2/C07"),
    "C08": _mdp("Generated call histories solve(k1..km) for all five solvers judged after every call by a numpy model of the "
                "documented stopping rule with its own sweep counter, plus a twin solver given the summed limit.",
                "Relative VI compared modulo an additive constant; PI judged by the twin and at-most-k clauses; known finding F10 excluded and counted.",
                "Hypothesis generated call histories, model-based oracle + split/single-call differential", "2/C08"),
    "C09": dict(category="fault_enumeration",
                text="Generated interruption chains (every segment in a fresh process: restore from the directory, solve, exit) over "
                     "solvers x problems x frequency x retention x sync/async x both routes, compared bit for bit with one uninterrupted "
                     "process without checkpointing; thorough tier enumerates every interruption iteration of a fixed instance per solver.",
                note="Interruption = orderly process exit after pending writes finished (kills are C11's subject); same machine and JAX build.",
                technique="Hypothesis generated interruption chains in fresh processes, differential against an uninterrupted run; exhaustive over k for fixed instances (thorough)",
                design="2/C09"),
    "C10": _mdp("Generated solver x problem x checkpoint settings x step x override subsets: a fresh process restores and is compared, "
                "field by field and bit for bit, with the state snapshotted when save(step) was called; configuration equality, override "
                "effects (attributes AND the steps on disk after a further solve(), judged with the frequency / retention in effect), byte-identity "
                "of the original directory, and the documented error paths.",
                "Snapshots are taken by wrapping the public save(); states cross processes as JSON (exact float round-trip).",
                "Hypothesis generated save/restore round-trips across processes, snapshot oracle + directory content hashes", "2/C10"),
    "C11": dict(category="fault_enumeration",
                text="Generated kill plans owned by the harness - program points around every save, the N-th file-system system call of a "
                     "kind injected with strace, generated delays into in-flight background writes, and crash-restore-crash chains - "
                     "each judged in a fresh process against the reference trajectory of an un-killed dry run (exact equality of the "
                     "restored state with the state held at the iteration the checkpoint carries, lower bound from the progress log, "
                     "exact continuation).",
                note="Process crash (SIGKILL) on a local Linux file system, not power loss; strace counts per thread, the stage hit is classified post mortem.",
                technique="fault injection with generated kill plans (program point / strace syscall injection / timed SIGKILL), reference-trajectory oracle",
                design="2/C11"),
    "C12": _mdp("Generated histories (frequency, retention, sync/async, solve() calls around multiples of f and around convergence, "
                "mid-sequence restores into the same or a new directory) judged against a cadence/retention model and per-step content.",
                "Iteration ends are taken from the solver; known finding F9 (restore of an older step into the same directory) is excluded and counted.",
                "Hypothesis generated call/restore histories, model-based oracle (retention model) + per-step content round-trip", "2/C12"),
    "C13": _mdp("Generated valid parameterisations of the four shipped problems; the probability of every state x action x event "
                "is enumerated completely per parameterisation and checked for finiteness, sign and row sums.",
                "Parameter space sampled; table enumeration complete per sample.",
                "Hypothesis generated parameterisations, complete table enumeration, distribution-validity predicate", "2/C13"),
    "C14": _mdp("Same generator; full transition table per parameterisation: index of every listed state, documented sizes, no "
                "duplicates, every positive-probability successor is a listed state whose index points back to it.",
                "Documented sizes computed independently from the docstrings.",
                "Hypothesis generated parameterisations, complete table enumeration, index round-trip oracle", "2/C14"),
    "C15": _mdp("Same generator; successor and reward of every (state, action, event) compared with independent scalar "
                "unit-by-unit Python models written from the docstrings (self-checked by unit conservation).",
                "Forest cut reward at age 0 follows pymdptoolbox; Mirjalili receipts beyond the per-age cap are not accepted.",
                "Hypothesis generated parameterisations, differential against scalar reference models", "2/C15"),
    "C16": _mdp("Same generator; probability of every (state, action, event) and the initial values compared with the documented "
                "distributions computed with scipy (brute-force joint law for Hendrix).",
                "Absolute tolerance 1e-5 (accuracy limit of jax betaln inside numpyro's negative binomial, see DESIGN).",
                "Hypothesis generated parameterisations, differential against scipy reference distributions", "2/C16"),
    "C17": _mdp("Generated tabular problems x tolerance x optional mass defect: returned matrices against numpy accumulation, "
                "error path (ValueError naming the pair) and solve-both-ways agreement; two thirds of the cases call the builder on the same "
                "problem object beforehand with other tolerances (history independence).",
                "Reads the named pair from the message format 'state i, action j'.",
                "Hypothesis generated problems and fault injection (mass defect), numpy accumulation + exact-solve differential", "2/C17"),
    "C20": _mdp("Generated solver class x problem x parameter values on and around every documented boundary, optionally one "
                "out-of-domain field: three construction routes must agree (configuration and behaviour), invalid sets must be rejected "
                "with ValueError/TypeError, solve must complete in float64; two fresh processes compare construction orders.",
                "NaN not generated; known finding F7 (float32 tables of a problem created before 64-bit mode) excluded and counted.",
                "Hypothesis generated boundary-value configurations, route differential + exception-type oracle + fresh-process precision differential", "2/C20"),
    "C18": dict(
        category="exploration",
        text="Complete enumeration of a bounded box of (n_states, max_batch_size, devices) plus generated large sizes, "
             "each judged by layout arithmetic and an array round-trip; exhaustive inside the box, sampled outside.",
        note="Trusts numpy reshape/arange as the layout oracle; array part mostly runs with numpy substituted for "
             "jax.numpy, every reported failure is re-judged on real jax.numpy.",
        technique="exhaustive enumeration + Hypothesis generated triples, round-trip oracle",
        design="2/C18"),
    "C19": dict(
        category="exploration",
        text="Complete enumeration of all integer boxes of dimension 1..3 (4 in thorough) with bounds in -3..6, plus "
             "Hypothesis-generated wider boxes; row-major listing, index inverse and clipping judged against numpy.",
        note="Trusts numpy.unravel_index/ravel_multi_index/clip as oracle; bounds within int32.",
        technique="exhaustive enumeration + Hypothesis generated boxes, inverse-function oracle",
        design="2/C19"),
}

NOT_YET = {}


def main():
    props = [json.loads(l) for l in (ROOT / "properties.jsonl").read_text().splitlines() if l.strip()]
    checks = []
    na = []
    for p in props:
        pid = p["id"]
        if pid in CHECKS:
            c = CHECKS[pid]
            checks.append(dict(
                property_id=pid,
                quick_cmd=f"./check {pid} quick",
                thorough_cmd=f"./check {pid} thorough",
                evidence_file=f"/verif/evidence/{pid}.json",
                replay_cmd_template=f"./check {pid} --replay {{path}}",
                engine="vf",
                level_claimed=dict(category=c["category"], text=c["text"], design_ref=c["design"]),
                level_note=c["note"],
                technique=c["technique"],
            ))
        else:
            na.append(dict(property_id=pid, reason=NOT_YET.get(pid, "check not built yet (work in progress; see DESIGN.md section 5 build order)")))
    m = dict(
        version=1,
        setup_cmd="/venv/bin/python -c 'import hypothesis' 2>/dev/null || /venv/bin/pip install --no-index --find-links /opt/veriftools/wheels hypothesis",
        hooks=dict(
            guard="MDPAX_VERIF",
            enable="checks run /venv/bin/python with PYTHONPATH=/repo/src and MDPAX_VERIF=1 (set by ./check); no build step",
            baseline_off_cmd=BASELINE_OFF,
            source_commits=["7e0d7e0"],
            add_only=True,
        ),
        engines=[dict(name="vf", path="/verif/vf", serves_properties=sorted(CHECKS),
                      kind_free_text="Hypothesis property-based testing + exhaustive enumeration of bounded boxes, "
                                     "numpy/scipy reference oracles, sharded over 16 processes")],
        checks=checks,
        notes="Every check: ./check <ID> quick|thorough; replay with ./check <ID> --replay <file>. Exit 0 held, 1 VIOLATION, 2 harness error.",
        not_applicable=na,
    )
    (ROOT / "MANIFEST.json").write_text(json.dumps(m, indent=1) + "\n")
    import jsonschema
    jsonschema.validate(m, json.loads(Path("/root/.vp/MANIFEST.schema.json").read_text()))
    print("MANIFEST ok:", len(checks), "checks,", len(na), "not claimed")


if __name__ == "__main__":
    main()
