"""Writes /verif/MANIFEST.json from the table below (run: /venv/bin/python -m vf.manifest_gen)."""
import json
from pathlib import Path

ROOT = Path(__file__).resolve().parent.parent

BASELINE_OFF = ("cd /repo && env -u MDPAX_VERIF JAX_PLATFORMS=cpu /venv/bin/python -m pytest -ra -q -p no:cacheprovider "
                "--timeout=900 --continue-on-collection-errors")

CHECKS = {
    "C18": dict(
        category="exploration",
        text="Complete enumeration of a bounded box of (n_states, max_batch_size, devices) plus generated large sizes, "
             "each judged by layout arithmetic and an array round-trip; exhaustive inside the box, sampled outside.",
        note="Trusts numpy reshape/arange as the layout oracle; array part mostly runs with numpy substituted for "
             "jax.numpy, every reported failure is re-judged on real jax.numpy.",
        technique="exhaustive enumeration + Hypothesis generated triples, round-trip oracle",
        design="2/C18"),
    "C19": dict(
        category="exploration",
        text="Complete enumeration of all integer boxes of dimension 1..3 (4 in thorough) with bounds in -3..6, plus "
             "Hypothesis-generated wider boxes; row-major listing, index inverse and clipping judged against numpy.",
        note="Trusts numpy.unravel_index/ravel_multi_index/clip as oracle; bounds within int32.",
        technique="exhaustive enumeration + Hypothesis generated boxes, inverse-function oracle",
        design="2/C19"),
}

NOT_YET = {}


def main():
    props = [json.loads(l) for l in (ROOT / "properties.jsonl").read_text().splitlines() if l.strip()]
    checks = []
    na = []
    for p in props:
        pid = p["id"]
        if pid in CHECKS:
            c = CHECKS[pid]
            checks.append(dict(
                property_id=pid,
                quick_cmd=f"./check {pid} quick",
                thorough_cmd=f"./check {pid} thorough",
                evidence_file=f"/verif/evidence/{pid}.json",
                replay_cmd_template=f"./check {pid} --replay {{path}}",
                engine="vf",
                level_claimed=dict(category=c["category"], text=c["text"], design_ref=c["design"]),
                level_note=c["note"],
                technique=c["technique"],
            ))
        else:
            na.append(dict(property_id=pid, reason=NOT_YET.get(pid, "check not built yet (work in progress; see DESIGN.md section 5 build order)")))
    m = dict(
        version=1,
        setup_cmd="/venv/bin/python -c 'import hypothesis' 2>/dev/null || /venv/bin/pip install --no-index --find-links /opt/veriftools/wheels hypothesis",
        hooks=dict(
            guard="MDPAX_VERIF",
            enable="checks run /venv/bin/python with PYTHONPATH=/repo/src and MDPAX_VERIF=1 (set by ./check); no build step",
            baseline_off_cmd=BASELINE_OFF,
            source_commits=[],
            add_only=True,
        ),
        engines=[dict(name="vf", path="/verif/vf", serves_properties=sorted(CHECKS),
                      kind_free_text="Hypothesis property-based testing + exhaustive enumeration of bounded boxes, "
                                     "numpy/scipy reference oracles, sharded over 16 processes")],
        checks=checks,
        notes="Every check: ./check <ID> quick|thorough; replay with ./check <ID> --replay <file>. Exit 0 held, 1 VIOLATION, 2 harness error.",
        not_applicable=na,
    )
    (ROOT / "MANIFEST.json").write_text(json.dumps(m, indent=1) + "\n")
    import jsonschema
    jsonschema.validate(m, json.loads(Path("/root/.vp/MANIFEST.schema.json").read_text()))
    print("MANIFEST ok:", len(checks), "checks,", len(na), "not claimed")


if __name__ == "__main__":
    main()
