"""Thin access layer to the code under test (documented attributes only)."""

from __future__ import annotations

import numpy as np

import jax

jax.config.update("jax_enable_x64", True)

from vf.tabular import make_problem, make_solver, policy_to_indices  # noqa: E402,F401


def n_devices():
    return len(jax.devices())


def sweep(solver, V, gamma):
    """One synchronous sweep from (V, gamma) through documented attributes: returns (TV, policy)."""
    import jax.numpy as jnp

    solver.values = jnp.asarray(np.asarray(V, dtype=np.float64))
    solver.gamma = jnp.array(float(gamma))
    st = solver.solve(1)
    return np.asarray(st.values, dtype=np.float64), np.asarray(st.policy)


def layout(solver):
    bp = solver.batch_processor
    return (int(bp.n_devices), int(bp.n_batches), int(bp.batch_size))
