"""Shared machinery for C13-C16: parameter generators for the four shipped problems and full-table builders."""

from __future__ import annotations

import importlib

import numpy as np

from vf import ref_problems as rp


def build_sut(kind, params):
    mod, name = rp.SUT[kind]
    cls = getattr(importlib.import_module(mod), name)
    kw = dict(params)
    for k, v in list(kw.items()):
        if isinstance(v, list):
            kw[k] = tuple(v)
    return cls(**kw)


def sut_tables(problem, want=("next", "reward", "prob", "index")):
    """Full tables over state x action x event from the code under test (one vmapped, jitted call)."""
    import jax
    import jax.numpy as jnp

    S, A, E = problem.state_space, problem.action_space, problem.random_event_space
    out = {}

    def v3(f):
        return jax.vmap(jax.vmap(jax.vmap(f, in_axes=(None, None, 0)), in_axes=(None, 0, None)), in_axes=(0, None, None))

    if "next" in want or "reward" in want or "index" in want:
        ns, rw = jax.jit(v3(problem.transition))(S, A, E)
        out["next"] = np.asarray(ns)
        out["reward"] = np.asarray(rw, dtype=np.float64).reshape(len(S), len(A), len(E))
        if "index" in want:
            idx = jax.jit(jax.vmap(jax.vmap(jax.vmap(problem.state_to_index))))(ns)
            out["next_index"] = np.asarray(idx)
    if "prob" in want:
        pr = jax.jit(v3(problem.random_event_probability))(S, A, E)
        out["prob"] = np.asarray(pr, dtype=np.float64).reshape(len(S), len(A), len(E))
    if "index" in want:
        out["self_index"] = np.asarray(jax.jit(jax.vmap(problem.state_to_index))(S))
    out["S"], out["A"], out["E"] = np.asarray(S), np.asarray(A), np.asarray(E)
    return out


def param_strategy(kind, cap):
    """Hypothesis strategy of valid parameter dicts whose S*A*E stays below cap (by construction)."""
    from hypothesis import strategies as st

    fl = lambda lo, hi: st.floats(lo, hi, allow_nan=False).map(lambda x: round(x, 3))  # noqa: E731
    cost = st.one_of(st.sampled_from([0.0, 1.0, 0.5, 3.0, 7.0]), fl(0, 20))

    @st.composite
    def forest(draw):
        return dict(S=draw(st.one_of(st.integers(1, 6), st.integers(1, 40))),
                    r1=draw(st.one_of(st.sampled_from([4.0, 0.0, 1.0]), fl(-50, 50))),
                    r2=draw(st.one_of(st.sampled_from([2.0, 0.0, 1.0]), fl(-50, 50))),
                    p=draw(st.one_of(st.sampled_from([0.0, 1.0, 0.1, 0.5]), fl(0, 1))))

    @st.composite
    def de_moor(draw):
        m = draw(st.integers(1, 5))
        L = draw(st.integers(1, 4))
        D = draw(st.integers(1, 15))
        qs = [q for q in range(1, 5) if rp.sizes("de_moor", dict(max_order_quantity=q, max_useful_life=m, lead_time=L, max_demand=D))[0]
              * (q + 1) * (D + 1) <= cap]
        if not qs:
            m, L = min(m, 2), min(L, 2)
            qs = [1]
        Q = draw(st.sampled_from(qs))
        return dict(max_demand=D, demand_gamma_mean=draw(st.one_of(st.sampled_from([4.0, 0.5, 11.5]), fl(0.05, 12))),
                    demand_gamma_cov=draw(st.one_of(st.sampled_from([0.5, 1.0, 0.1, 2.0]), fl(0.1, 2))),
                    max_useful_life=m, lead_time=L, max_order_quantity=Q,
                    variable_order_cost=draw(cost), shortage_cost=draw(cost), wastage_cost=draw(cost), holding_cost=draw(cost),
                    issue_policy=draw(st.sampled_from(["fifo", "lifo"])))

    @st.composite
    def hendrix(draw):
        m = draw(st.integers(1, 3))
        opts = [(qa, qb) for qa in range(1, 5) for qb in range(1, 5)
                if np.prod(rp.sizes("hendrix", dict(max_useful_life=m, max_order_quantity_a=qa, max_order_quantity_b=qb))) <= cap]
        if not opts:
            m = 2
            opts = [(1, 1), (2, 1), (1, 2)]
        Qa, Qb = draw(st.sampled_from(opts))
        mean = st.one_of(st.sampled_from([0.5, 2.0, 5.0, 15.0, 25.0, 30.0]), fl(0.05, 30))
        heavy = draw(st.integers(0, 3)) == 0  # regime: both demands large relative to the order limits, strong substitution
        big = st.one_of(st.sampled_from([15.0, 20.0, 25.0, 30.0]), fl(12, 30))
        return dict(max_useful_life=m, demand_poisson_mean_a=draw(big if heavy else mean), demand_poisson_mean_b=draw(big if heavy else mean),
                    substitution_probability=draw(st.sampled_from([1.0, 0.9, 0.8]) if heavy else
                                                  st.one_of(st.sampled_from([0.0, 1.0, 1.0, 0.5, 0.9]), fl(0, 1))),
                    variable_order_cost_a=draw(cost), variable_order_cost_b=draw(cost), sales_price_a=draw(cost),
                    sales_price_b=draw(cost), max_order_quantity_a=Qa, max_order_quantity_b=Qb)

    @st.composite
    def mirjalili(draw):
        m = draw(st.integers(1, 4))
        D = draw(st.integers(1, 10))
        qs = [q for q in range(1, 6) if np.prod(rp.sizes("mirjalili", dict(max_useful_life=m, max_order_quantity=q, max_demand=D))) <= cap]
        if not qs:
            m = 2
            qs = [1, 2]
        Q = draw(st.sampled_from(qs))
        pos = st.one_of(st.sampled_from([3.5, 11.0, 0.7]), fl(0.05, 15))
        coef = st.one_of(st.sampled_from([0.0, 1.0, -1.0, 0.5]), fl(-3, 3))
        return dict(max_demand=D, weekday_demand_negbin_n=[draw(pos) for _ in range(7)],
                    weekday_demand_negbin_delta=[draw(pos) for _ in range(7)], max_useful_life=m,
                    useful_life_at_arrival_distribution_c_0=[draw(coef) for _ in range(m - 1)],
                    useful_life_at_arrival_distribution_c_1=[draw(coef) for _ in range(m - 1)],
                    max_order_quantity=Q, variable_order_cost=draw(cost), fixed_order_cost=draw(cost),
                    shortage_cost=draw(cost), wastage_cost=draw(cost), holding_cost=draw(cost))

    return dict(forest=forest, de_moor=de_moor, hendrix=hendrix, mirjalili=mirjalili)[kind]()


def case_strategy(cap, kinds=("forest", "de_moor", "hendrix", "mirjalili", "de_moor", "hendrix", "mirjalili")):
    from hypothesis import strategies as st

    @st.composite
    def cases(draw):
        kind = draw(st.sampled_from(list(kinds)))
        return dict(kind=kind, params=draw(param_strategy(kind, cap)))

    return cases()


def param_classes(kind, params):
    cl = [kind]
    m = params.get("max_useful_life")
    if m is not None:
        cl.append(f"{kind}-m={m}")
    if kind == "de_moor":
        cl.append(f"de_moor-L={params.get('lead_time', 1)}")
        cl.append("de_moor-" + params.get("issue_policy", "lifo"))
    if kind == "hendrix":
        trunc = params.get("max_useful_life", 2) * (max(params.get("max_order_quantity_a", 10), params.get("max_order_quantity_b", 10)) + 2)
        if max(params.get("demand_poisson_mean_a", 5.0), params.get("demand_poisson_mean_b", 5.0)) > trunc / 3:
            cl.append("hendrix-means-large-vs-order-limits")
        q = params.get("substitution_probability", 0.5)
        cl.append("hendrix-sub-interior" if 0 < q < 1 else "hendrix-sub-endpoint")
    if kind == "mirjalili" and any(c != 0 for c in params.get("useful_life_at_arrival_distribution_c_1", (0.0, 0.0))):
        cl.append("mirjalili-c1!=0")
    if kind == "forest" and params.get("p", 0.1) in (0.0, 1.0):
        cl.append("forest-p-endpoint")
    return cl
