"""numpy-only oracles for finite MDPs given as a tabular spec. Never imports mdpax."""

from __future__ import annotations

import itertools

import numpy as np


class OracleError(Exception):
    """The reference failed its own self-check (harness error, never a violation)."""


def arrays(spec):
    nS, nA, nE = spec["nS"], spec["nA"], spec["nE"]
    nxt = np.asarray(spec["next"], dtype=np.int64).reshape(nS, nA, nE)
    rew = np.asarray(spec["reward"], dtype=np.float64).reshape(nS, nA, nE)
    prb = np.asarray(spec["prob"], dtype=np.float64).reshape(nS, nA, nE)
    return nxt, rew, prb


def dense(spec):
    """P[a,s,s'] and R[s,a] by plain accumulation."""
    nxt, rew, prb = arrays(spec)
    nS, nA, nE = nxt.shape
    P = np.zeros((nA, nS, nS))
    R = np.zeros((nS, nA))
    for s in range(nS):
        for a in range(nA):
            for e in range(nE):
                P[a, s, nxt[s, a, e]] += prb[s, a, e]
                R[s, a] += prb[s, a, e] * rew[s, a, e]
    return P, R


def q_values(spec, V, gamma):
    """Q[s,a] = sum_e p (r + gamma V[next])."""
    nxt, rew, prb = arrays(spec)
    V = np.asarray(V, dtype=np.float64)
    return np.sum(prb * (rew + gamma * V[nxt]), axis=2)


def backup(spec, V, gamma):
    Q = q_values(spec, V, gamma)
    return Q.max(axis=1), Q


def policy_backup(spec, V, gamma, pol):
    Q = q_values(spec, V, gamma)
    return Q[np.arange(len(pol)), np.asarray(pol)]


def policy_value(P, R, pol, gamma):
    nS = R.shape[0]
    pol = np.asarray(pol)
    Ppi = P[pol, np.arange(nS), :]
    Rpi = R[np.arange(nS), pol]
    return np.linalg.solve(np.eye(nS) - gamma * Ppi, Rpi)


def optimal_discounted(P, R, gamma, tol_scale=None):
    """Howard policy iteration with exact linear solves. Self-checked by the Bellman residual."""
    nS, nA = R.shape
    pol = np.argmax(R, axis=1)
    for _ in range(10000):
        V = policy_value(P, R, pol, gamma)
        Q = R + gamma * np.einsum("asj,j->sa", P, V)
        # keep current action on ties (guarantees termination)
        best = Q.max(axis=1)
        cur = Q[np.arange(nS), pol]
        newpol = np.where(best > cur + 1e-12 * (1 + np.abs(cur)), np.argmax(Q, axis=1), pol)
        if np.array_equal(newpol, pol):
            break
        pol = newpol
    else:
        raise OracleError("Howard PI did not terminate")
    Q = R + gamma * np.einsum("asj,j->sa", P, V)
    resid = np.max(np.abs(Q.max(axis=1) - V))
    scale = (np.max(np.abs(R)) / (1 - gamma)) if gamma < 1 else np.max(np.abs(V))
    if resid > 1e-9 * (1 + scale):
        raise OracleError(f"V* residual {resid} too large (scale {scale})")
    return V, pol


def value_scale(spec, gamma):
    _, rew, _ = arrays(spec)
    m = float(np.max(np.abs(rew))) if rew.size else 0.0
    v0 = spec.get("v0")
    m0 = float(np.max(np.abs(v0))) if v0 is not None else 0.0
    if gamma < 1:
        return max(m / (1 - gamma), m0)
    return max(m, m0)


def span(x):
    return float(np.max(x) - np.min(x))


# ---------------------------------------------------------------- average reward


def stationary_gain(P, R, pol):
    """Gain of a deterministic policy on a unichain MDP (unique stationary distribution)."""
    nS = R.shape[0]
    pol = np.asarray(pol)
    Ppi = P[pol, np.arange(nS), :]
    Rpi = R[np.arange(nS), pol]
    A = np.vstack([Ppi.T - np.eye(nS), np.ones((1, nS))])
    b = np.zeros(nS + 1)
    b[-1] = 1.0
    mu, res, rank, _ = np.linalg.lstsq(A, b, rcond=None)
    return float(mu @ Rpi), mu


def recurrent_classes(Ppi):
    """Closed communicating classes of a stochastic matrix."""
    n = Ppi.shape[0]
    reach = (Ppi > 0) | np.eye(n, dtype=bool)
    for k in range(n):
        reach = reach | (reach[:, [k]] & reach[[k], :])
    classes = []
    seen = set()
    for i in range(n):
        if i in seen:
            continue
        cls = [j for j in range(n) if reach[i, j] and reach[j, i]]
        closed = all(not reach[j, k] or k in cls for j in cls for k in range(n))
        for j in cls:
            seen.add(j)
        if closed:
            classes.append(cls)
    return classes


def is_unichain_all_policies(P, limit=4096):
    """True iff every deterministic policy has exactly one recurrent class (brute force)."""
    nA, nS, _ = P.shape
    if nA**nS > limit:
        return None
    for pol in itertools.product(range(nA), repeat=nS):
        Ppi = P[np.array(pol), np.arange(nS), :]
        if len(recurrent_classes(Ppi)) != 1:
            return False
    return True


def optimal_gain_enum(P, R, limit=4096):
    nA, nS, _ = P.shape
    if nA**nS > limit:
        return None
    best = -np.inf
    bestpol = None
    gains = set()
    for pol in itertools.product(range(nA), repeat=nS):
        g, _ = stationary_gain(P, R, pol)
        gains.add(round(g, 9))
        if g > best:
            best, bestpol = g, pol
    return best, np.array(bestpol), len(gains)


def optimal_gain_howard(P, R):
    """Average-reward policy iteration for unichain MDPs; returns (g*, h*, policy) with h*[last] = 0."""
    nA, nS, _ = P.shape
    pol = np.argmax(R, axis=1)
    for _ in range(10000):
        Ppi = P[pol, np.arange(nS), :]
        Rpi = R[np.arange(nS), pol]
        # solve h + g = r + P h with h[nS-1] = 0 : unknowns (h[0..nS-2], g)
        A = np.zeros((nS, nS))
        A[:, : nS - 1] = (np.eye(nS) - Ppi)[:, : nS - 1]
        A[:, nS - 1] = 1.0
        x = np.linalg.solve(A, Rpi)
        h = np.append(x[: nS - 1], 0.0)
        g = x[nS - 1]
        Q = R + np.einsum("asj,j->sa", P, h)
        best = Q.max(axis=1)
        cur = Q[np.arange(nS), pol]
        newpol = np.where(best > cur + 1e-11 * (1 + np.abs(cur)), np.argmax(Q, axis=1), pol)
        if np.array_equal(newpol, pol):
            break
        pol = newpol
    else:
        raise OracleError("average-reward Howard PI did not terminate")
    Q = R + np.einsum("asj,j->sa", P, h)
    resid = np.max(np.abs(Q.max(axis=1) - h - g))
    if resid > 1e-8 * (1 + np.max(np.abs(R)) + np.max(np.abs(h))):
        raise OracleError(f"average-reward optimality residual {resid}")
    return float(g), h, pol


# ---------------------------------------------------------------- reference solvers (documented rules)


def threshold(eps, gamma):
    return eps if gamma == 1 else eps * (1 - gamma) / gamma


def measure(kind, new, old):
    d = np.asarray(new) - np.asarray(old)
    if kind == "span":
        return float(d.max() - d.min())
    return float(np.max(np.abs(d)))


def initial_values(spec):
    v0 = spec.get("v0")
    return np.zeros(spec["nS"]) if v0 is None else np.asarray(v0, dtype=np.float64)


def vi_iterates(spec, gamma, n, V0=None):
    """[W_0, ..., W_n] plain value iteration iterates."""
    W = [initial_values(spec) if V0 is None else np.asarray(V0, dtype=np.float64)]
    for _ in range(n):
        W.append(backup(spec, W[-1], gamma)[0])
    return W


def greedy_ok(spec, V, gamma, pol_idx, tol):
    """Each chosen action attains the maximum of the numpy Q within tol; returns worst gap."""
    Q = q_values(spec, V, gamma)
    gap = Q.max(axis=1) - Q[np.arange(len(pol_idx)), pol_idx]
    return float(gap.max()), gap


def block_gauss_seidel_sweep(spec, V, gamma, layout, order=None):
    """One semi-async sweep. layout = (n_devices, n_batches, batch_size); order = permutation of states
    (position -> state index) or None for natural order. Each device starts from V, processes its batches in
    order and sees its own earlier batches' new values. Returns the new vector in natural state order."""
    nS = spec["nS"]
    D, NB, BS = layout
    order = np.arange(nS) if order is None else np.asarray(order)
    V = np.asarray(V, dtype=np.float64)
    new = np.empty(nS)
    nxt, rew, prb = arrays(spec)
    for d in range(D):
        cur = V.copy()
        for b in range(NB):
            lo = (d * NB + b) * BS
            pos = [p for p in range(lo, lo + BS) if p < nS]
            if not pos:
                continue
            st = order[pos]
            q = np.sum(prb[st] * (rew[st] + gamma * cur[nxt[st]]), axis=2).max(axis=1)
            new[st] = q
            cur[st] = q
    return new
