"""Persistent and one-shot subprocess workers (device count and construction order are fixed at process start)."""

from __future__ import annotations

import atexit
import json
import os
import subprocess
import sys
from pathlib import Path

ROOT = Path(__file__).resolve().parent.parent


class WorkerDied(Exception):
    pass


class Worker:
    def __init__(self, devices=1, extra_env=None):
        env = dict(os.environ)
        env["XLA_FLAGS"] = f"--xla_force_host_platform_device_count={int(devices)}"
        env["VF_WORKER"] = "1"
        if extra_env:
            env.update(extra_env)
        self.devices = devices
        self.p = subprocess.Popen([sys.executable, "-m", "vf.worker_main"], stdin=subprocess.PIPE, stdout=subprocess.PIPE,
                                  stderr=subprocess.DEVNULL, env=env, cwd=str(ROOT), text=True, bufsize=1)

    def call(self, op, **kw):
        try:
            self.p.stdin.write(json.dumps(dict(op=op, **kw)) + "\n")
            self.p.stdin.flush()
            while True:
                line = self.p.stdout.readline()
                if not line:
                    raise WorkerDied(f"worker ({self.devices} devices) died during {op}")
                if line.startswith("@@VF@@"):
                    return json.loads(line[6:])
        except BrokenPipeError as e:
            raise WorkerDied(str(e))

    def close(self):
        try:
            self.p.stdin.close()
        except Exception:
            pass
        try:
            self.p.wait(timeout=5)
        except Exception:
            self.p.kill()


_POOL = {}


def get(devices, **extra_env):
    key = (devices, tuple(sorted(extra_env.items())))
    w = _POOL.get(key)
    if w is None or w.p.poll() is not None:
        w = Worker(devices, extra_env or None)
        _POOL[key] = w
    return w


def close_all():
    for w in list(_POOL.values()):
        w.close()
    _POOL.clear()


atexit.register(close_all)


def run_oneshot(op, devices=1, timeout=600, extra_env=None, python_args=None, **kw):
    """Fresh process: run one op and exit. Returns (reply dict | None, returncode, stderr tail)."""
    env = dict(os.environ)
    env["XLA_FLAGS"] = f"--xla_force_host_platform_device_count={int(devices)}"
    env["VF_WORKER"] = "1"
    if extra_env:
        env.update(extra_env)
    cmd = (python_args or [sys.executable]) + ["-m", "vf.worker_main", "--oneshot"]
    try:
        cp = subprocess.run(cmd, input=json.dumps(dict(op=op, **kw)) + "\n", capture_output=True, text=True, env=env,
                            cwd=str(ROOT), timeout=timeout)
    except subprocess.TimeoutExpired as e:
        return None, -999, f"timeout after {timeout}s"
    reply = None
    for line in cp.stdout.splitlines():
        if line.startswith("@@VF@@"):
            reply = json.loads(line[6:])
    return reply, cp.returncode, cp.stderr[-2000:]
