"""C10 — restore()/load_checkpoint() reproduce the saved solver exactly and completely."""

from __future__ import annotations

import shutil

from vf import ckpt
from vf.runner import verdict_fail, verdict_ok

ID = "C10"
LEVEL = "exploration"
RULE = (
    "Hypothesis generates a solver (all five) x problem (small parameterisations of the four shipped problems incl. "
    "tuple-valued Mirjalili fields, or a config-less tabular problem) x checkpoint settings (frequency 1..3, retention "
    "1..3, sync/async) x one or two solve() calls; a fresh worker process runs it and snapshots solver_state at every "
    "save(step). A second fresh process rebuilds the solver with restore(directory) (or load_checkpoint on a "
    "hand-built solver) at a generated step (explicit retained step or latest) with a generated subset of overrides "
    "(new directory, frequency, retention, async) and optionally solves further. Oracle: restored configuration equals "
    "the original field by field (lists/tuples by content, nested problem configuration included, overridden fields "
    "excepted); every runtime field (values, iteration, stored policy, gain, value history and index, period) equals "
    "the snapshot of that step bit for bit; latest = largest committed step; overrides are reflected in the solver's "
    "attributes AND in the steps actually on disk after a further solve() (cadence = the frequency in effect, retention = "
    "the max_checkpoints in effect, judged against the saved-set model of C12); later saves land in the new directory and the original directory is byte-identical (content hash of "
    "every file) after the restore. In a third of the cases the directory is first MOVED, or COPIED and the copy made older than "
    "the original ('from the directory alone'). A fifth of the cases exercise the error paths: no config.yaml -> "
    "FileNotFoundError; no completed step -> ValueError 'No checkpoints found', for both routes. Non-trivial = "
    "restored step >= 2 or at least one override; distinct = case digest."
)
ASSUMPTIONS = [
    "states cross process boundaries as JSON (Python float repr round-trips exactly)",
    "the saving process snapshots solver_state by wrapping the public save()",
]

F8 = "F8-restore-drops-stored-policy"


def plan(tier):
    if tier == "quick":
        return dict(shards=16, examples=128, time_budget_s=800, min_nontrivial=20, shrink_cap_s=120)
    return dict(shards=16, examples=960, time_budget_s=3400, min_nontrivial=120)


def strategy(tier, shard):
    from hypothesis import strategies as st

    @st.composite
    def cases(draw):
        problem = draw(ckpt.problem_descs(rot=shard))
        solver = draw(ckpt.solver_descs(rot=shard))
        route = "load" if problem["kind"] == "tabular" else draw(st.sampled_from(["restore", "restore", "load"]))
        ov = dict(new_dir=draw(st.booleans()), frequency=draw(st.sampled_from([None, 1, 2, 3, 0])),
                  keep=draw(st.sampled_from([None, 1, 2, 4])), async_=draw(st.sampled_from([None, True, False])))
        if draw(st.integers(0, 5)) == 0:
            # retained steps on both sides of 10 (e.g. 9 and 10, 10 and 11): a slowly converging solver, frequency 1, retention
            # >= 2 and a first call of 10 or 11 sweeps, restored without naming a step - "latest" must be the numerically largest
            if solver["kind"] == "pi":
                solver = dict(kind="vi", params={k: v for k, v in solver["params"].items() if k not in ("max_eval_iter", "reset_values_for_each_policy_eval")})
            solver["params"]["epsilon"] = 1e-4
            if solver["kind"] != "rvi":
                solver["params"]["gamma"] = 0.95
            return dict(problem=problem, solver=solver, freq=1, keep=draw(st.integers(2, 3)), async_=draw(st.booleans()),
                        calls=[draw(st.sampled_from([10, 11]))] + ([draw(st.integers(1, 3))] if draw(st.booleans()) else []),
                        step_choice="latest", route=route, overrides=ov, later=draw(st.sampled_from([0, 3])), errpath=None,
                        relocate=draw(st.sampled_from([None, None, "move"])))
        return dict(problem=problem, solver=solver, freq=draw(st.integers(1, 3)), keep=draw(st.integers(1, 3)),
                    async_=draw(st.booleans()), # (first calls of 9..11 sweeps put retained steps on both sides of 10: "latest" must be numeric, not lexicographic)
                    calls=[draw(st.sampled_from([1, 2, 3, 4, 5, 6, 7, 9, 10, 11]))] + ([draw(st.integers(1, 5))] if draw(st.booleans()) else []),
                    step_choice=draw(st.sampled_from(["latest", "latest", 0, 1, 2])), route=route, overrides=ov,
                    # (a restore() whose frequency / retention override is non-trivial always solves further, so that the override
                    # can show on disk)
                    later=draw(st.sampled_from([3, 4, 6] if route == "restore" and (ov["keep"] is not None or ov["frequency"] not in (None, 0))
                                               else [0, 3, 4, 6])),
                    errpath=draw(st.sampled_from([None, None, None, None, "no_config", "no_steps"])),
                    # the directory may have been copied (and the original has moved on) or moved before it is restored
                    relocate=draw(st.sampled_from([None, None, None, "move", "copy-diverged"])))

    return cases()


def judge(case):
    problem, sdesc = case["problem"], case["solver"]
    kind = sdesc["kind"]
    classes = [f"solver-{kind}", f"problem-{problem['kind']}", f"route-{case['route']}", "async" if case["async_"] else "sync"]
    dirA = ckpt.new_dir("c10a")
    dirB = ckpt.new_dir("c10b")
    dirC = ckpt.new_dir("c10c")
    try:
        saver = dict(problem=problem, solver=ckpt.with_ckpt(sdesc, dirA, case["freq"], case["keep"], case["async_"]),
                     calls=case["calls"], snapshot=True)
        r1 = ckpt.run_ok(saver)
        if r1["error"]:
            return verdict_fail("saving-run:" + r1["error"]["bucket"], f"{kind}/{problem['kind']}: {r1['error']}", classes=classes)
        steps, tmp = ckpt.steps_in(dirA)
        if not steps:
            return verdict_fail("no-checkpoint-written", f"saves requested {r1['saves']}, directory holds {steps} {tmp}", classes=classes)
        has_cfg = (dirA / "config.yaml").exists()
        hashA = ckpt.tree_hash(dirA)
        err = case.get("errpath")
        if err:
            classes.append(f"errpath-{err}")
            shutil.rmtree(dirC)
            shutil.copytree(dirA, dirC)
            if err == "no_config":
                if not has_cfg:
                    return verdict_ok(nontrivial=False, classes=classes + ["skipped-no-config-anyway"])
                (dirC / "config.yaml").unlink()
                r = ckpt.run_ok(dict(solver=dict(kind=kind, params={}), restore=dict(route="restore", dir=str(dirC)), calls=[]))
                e = r["error"]
                if e is None or e["etype"] != "FileNotFoundError":
                    return verdict_fail("missing-config-not-FileNotFoundError", f"restore() of a directory without config.yaml: {e}", classes=classes)
                return verdict_ok(nontrivial=True, classes=classes, sample=dict(errpath=err, kind=kind))
            for s in steps:
                shutil.rmtree(dirC / str(s))
            outs = {}
            if has_cfg:
                outs["restore"] = ckpt.run_ok(dict(solver=dict(kind=kind, params={}), restore=dict(route="restore", dir=str(dirC)), calls=[]))
            outs["load"] = ckpt.run_ok(dict(problem=problem, solver=ckpt.with_ckpt(sdesc, None, 0, 1, True),
                                            restore=dict(route="load", dir=str(dirC)), calls=[]))
            for route, r in outs.items():
                e = r["error"]
                if e is None or e["etype"] != "ValueError" or "No checkpoints found" not in e["msg"]:
                    return verdict_fail(f"no-completed-step-not-documented-error:{route}",
                                        f"{route} on a directory without completed steps: {e}", classes=classes)
            return verdict_ok(nontrivial=True, classes=classes, sample=dict(errpath=err, kind=kind))
        # ---- normal restore (possibly from a copied / moved directory: "from the directory alone")
        src_dir = dirA
        reloc = case.get("relocate")
        if reloc:
            classes.append(f"relocated-{reloc}")
            shutil.rmtree(dirC)
            shutil.copytree(dirA, dirC)
            if reloc == "move":
                shutil.rmtree(dirA)
            elif len(steps) >= 2:
                shutil.rmtree(dirC / str(max(steps)))  # the copy is older than the original, which has moved on
                steps = steps[:-1]
            src_dir = dirC
            hashA = ckpt.tree_hash(dirC)
        sc = case["step_choice"]
        step = None if sc == "latest" else steps[int(sc) % len(steps)]
        expect_step = max(steps) if step is None else step
        ov = case["overrides"]
        route = case["route"]
        if route == "restore" and not has_cfg:
            return verdict_fail("config-file-missing", f"{kind}/{problem['kind']}: problem has a configuration but config.yaml was not written",
                                classes=classes)
        later = [int(case["later"])] if case["later"] and not reloc else []
        if reloc:
            ov = dict(ov, new_dir=False)
        if route == "restore":
            o = {}
            if ov["new_dir"]:
                o["new_checkpoint_dir"] = str(dirB)
            if ov["frequency"] is not None:
                o["checkpoint_frequency"] = ov["frequency"]
            if ov["keep"] is not None:
                o["max_checkpoints"] = ov["keep"]
            if ov["async_"] is not None:
                o["enable_async_checkpointing"] = ov["async_"]
            scen = dict(solver=dict(kind=kind, params={}), restore=dict(route="restore", dir=str(src_dir), step=step, overrides=o), calls=later)
        else:
            target = dirB if (ov["new_dir"] or reloc) else dirA
            f2 = ov["frequency"] if ov["frequency"] is not None else case["freq"]
            k2 = ov["keep"] if ov["keep"] is not None else case["keep"]
            a2 = ov["async_"] if ov["async_"] is not None else case["async_"]
            scen = dict(problem=problem, solver=ckpt.with_ckpt(sdesc, target, f2, k2, a2),
                        restore=dict(route="load", dir=str(src_dir), step=step), calls=later)
            o = dict(new_checkpoint_dir=str(dirB) if ov["new_dir"] else None, checkpoint_frequency=f2, max_checkpoints=k2,
                     enable_async_checkpointing=a2)
        if later and not ov["new_dir"] and step is not None and step < max(steps):
            # region of known finding F9 (C12): continuing in the same directory from an older step; not C10's subject
            scen["calls"] = []
            later = []
        r2 = ckpt.run_ok(scen)
        if r2["error"]:
            return verdict_fail(f"{route}-raised:" + r2["error"]["bucket"], f"{kind}/{problem['kind']} step={step}: {r2['error']}", classes=classes)
        snap = r1["snapshots"].get(str(expect_step))
        if snap is None:
            return verdict_fail("committed-step-never-saved", f"step {expect_step} is on disk but save() was called for {r1['saves']}", classes=classes)
        got = r2["restored"]
        if got["iteration"] != expect_step:
            return verdict_fail("restored-wrong-step", f"asked for {'latest' if step is None else step} (= {expect_step}), solver is at iteration "
                                f"{got['iteration']} (steps on disk {steps})", classes=classes)
        bad = ckpt.state_equal(got, snap)
        if bad:
            known = None
            if bad == "policy" and got.get("policy") is None and snap.get("policy") is not None and kind != "pi":
                known = F8
            return verdict_fail(f"restored-state-differs:{bad}",
                                f"{kind}/{problem['kind']} {route} step {expect_step}: field '{bad}' restored as "
                                f"{str(got.get(bad))[:120]} but the solver held {str(snap.get(bad))[:120]}", classes=classes, known=known)
        if got.get("values_dtype") != snap.get("values_dtype"):
            return verdict_fail("restored-state-differs:dtype", f"{got.get('values_dtype')} vs {snap.get('values_dtype')}", classes=classes)
        if route == "restore":
            c1, c2 = dict(r1["config"]), dict(r2["config"])
            for f in ("checkpoint_dir", "checkpoint_frequency", "max_checkpoints", "enable_async_checkpointing"):
                if f == "checkpoint_dir" or o.get(f) is not None:
                    c1.pop(f, None)
                    c2.pop(f, None)
            if c1 != c2:
                diff = {k: (c1.get(k), c2.get(k)) for k in set(c1) | set(c2) if c1.get(k) != c2.get(k)}
                return verdict_fail("restored-config-differs", f"{kind}/{problem['kind']}: {diff}", classes=classes)
        at = r2["attrs"]
        exp_attrs = dict(checkpoint_frequency=o.get("checkpoint_frequency") if o.get("checkpoint_frequency") is not None else case["freq"],
                         max_checkpoints=o.get("max_checkpoints") if o.get("max_checkpoints") is not None else case["keep"],
                         enable_async_checkpointing=o.get("enable_async_checkpointing") if o.get("enable_async_checkpointing") is not None else case["async_"])
        for f, v in exp_attrs.items():
            if at[f] != v:
                return verdict_fail(f"override-not-applied:{f}", f"expected {f}={v}, solver has {at[f]}", classes=classes)
        exp_dir = str(dirB) if ov["new_dir"] else str(dirA)
        if reloc:
            if ckpt.tree_hash(dirC) != hashA:
                return verdict_fail("original-directory-altered", f"restoring the relocated directory ({reloc}) changed its files", classes=classes)
        elif at["checkpoint_dir"] is not None and at["checkpoint_dir"].rstrip("/") != exp_dir.rstrip("/"):
            return verdict_fail("override-not-applied:directory", f"expected {exp_dir}, solver saves to {at['checkpoint_dir']}", classes=classes)
        if ov["new_dir"] and not reloc:
            # with a new directory for later saves the original directory must stay byte-identical (without one the
            # original directory is the active directory: config.yaml is legitimately rewritten there)
            if ckpt.tree_hash(dirA) != hashA:
                return verdict_fail("original-directory-altered", f"{route} (new_dir={ov['new_dir']}, later={later}) changed files in the original directory: "
                                    f"before {sorted(hashA)[:6]} after {sorted(ckpt.tree_hash(dirA))[:6]}", classes=classes)
        if exp_attrs["checkpoint_frequency"] == 0:
            classes.append("override-frequency-0")
            if at["has_manager"]:
                return verdict_fail("override-not-applied:frequency-0-still-checkpointing", f"frequency 0 requested, solver still has a checkpoint manager ({at})", classes=classes)
            if later and (ckpt.tree_hash(dirA) != hashA or ckpt.steps_in(dirB)[0]):
                return verdict_fail("override-not-applied:frequency-0-still-writes", f"after solve({later}): original steps {ckpt.steps_in(dirA)[0]}, new dir steps {ckpt.steps_in(dirB)[0]}", classes=classes)
        elif later and ov["new_dir"]:
            stepsB, _ = ckpt.steps_in(dirB)
            if not stepsB or min(stepsB) <= expect_step:
                return verdict_fail("later-saves-not-in-new-directory", f"new directory holds {stepsB} after solving from step {expect_step}", classes=classes)
            classes.append("later-saves-in-new-dir")
        if later and exp_attrs["checkpoint_frequency"] > 0 and r2.get("calls"):
            # "overrides ... take effect for later saves": the steps actually on disk after the further solve() must follow
            # the frequency and retention IN EFFECT (overridden or original), not merely be reflected in the attributes
            end = int(r2["calls"][-1]["iteration"])
            f_eff, m_eff = int(exp_attrs["checkpoint_frequency"]), int(exp_attrs["max_checkpoints"])
            new_saved = {n for n in range(expect_step + 1, end + 1) if n % f_eff == 0} | {end}
            tgt = dirB if ov["new_dir"] else dirA
            pool = new_saved if ov["new_dir"] else (set(steps) | new_saved)
            expect_steps = sorted(pool)[-m_eff:]
            got_steps, tmp_left = ckpt.steps_in(tgt)
            if got_steps != expect_steps or tmp_left:
                return verdict_fail("override-not-applied:later-saves-cadence-or-retention",
                                    f"{kind}/{problem['kind']} {route} from step {expect_step} (steps on disk {steps}) with frequency {f_eff}, "
                                    f"max_checkpoints {m_eff} in effect, solve({later}) ended at {end}: {'new' if ov['new_dir'] else 'same'} directory holds "
                                    f"{got_steps} {tmp_left}, expected {expect_steps}", classes=classes)
            classes.append("later-saves-follow-effective-settings")
            if ov["frequency"] not in (None, case["freq"]) or ov["keep"] not in (None, case["keep"]):
                classes.append("later-saves-under-changed-frequency-or-retention")
            if route == "restore" and sorted(pool)[-int(case["keep"]):] != expect_steps:
                classes.append("restore-route-retention-override-visible-on-disk")
        has_override = ov["new_dir"] or any(ov[k] is not None for k in ("frequency", "keep", "async_"))
        if has_override:
            classes.append("with-override")
        if step is not None:
            classes.append("explicit-step")
        if len(steps) >= 2 and len({len(str(x)) for x in steps}) >= 2:
            classes.append("retained-steps-of-different-digit-counts")
        if snap.get("policy") is not None:
            classes.append("snapshot-has-policy")
        sample = dict(kind=kind, problem=problem["kind"], route=route, freq=case["freq"], keep=case["keep"], calls=case["calls"],
                      steps_on_disk=steps, restored_step=expect_step, overrides=o)
        return verdict_ok(nontrivial=bool(expect_step >= 2 or has_override), classes=classes, sample=sample)
    finally:
        for d in (dirA, dirB, dirC):
            ckpt.cleanup(d)
