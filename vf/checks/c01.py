"""C01 — discounted solvers return near-optimal policies (and values) on convergence."""

from __future__ import annotations

import numpy as np

from vf import ref_mdp
from vf.gen_mdp import add_near_optimal_action, add_worse_copy, gammas_discounted, mdp_specs, spec_classes
from vf.runner import sut_bucket, verdict_fail, verdict_ok

ID = "C01"
LEVEL = "exploration"
RULE = (
    "Hypothesis generates a tabular MDP (1..10 states, 1..4 actions, 1..4 events, all encodings, duplicated and "
    "near-tie actions whose reward difference is a generated multiple of a small unit, absorbing states, optional "
    "initial_value / initial_policy overrides) and a solver configuration: class in {VI, PI, semi-async fixed, "
    "semi-async shuffled+seed}, convergence test, gamma in (0,1), epsilon = reward scale x 10^-6..10^0.5, "
    "max_batch_size in 1..nS+3; shards run under 1, 2 or 3 emulated devices. The solver is run to convergence. "
    "Oracle: exact V* (Howard PI with linear solves, residual-checked) and exact V_pi of the returned policy "
    "(linear solve). On reported convergence (stopped before the iteration limit; PI is given an evaluation budget that "
    "a-priori suffices for the evaluation test to be met): max(V*-V_pi) <= eps (VI span), 2 eps (VI max_diff), eps/gamma (PI "
    "span), 2 eps/gamma (PI max_diff), 2 gamma eps/(1-gamma) (semi-async max_diff); under max_diff |values-V*| < "
    "eps (VI, semi-async), |values-V_pi| < eps/gamma (PI); every policy row is an action vector. Non-trivial = "
    "converged, nS>=2, nA>=2, >=2 sweeps; 'tight' class = observed gap >= 10% of the bound; distinct = case digest."
)
ASSUMPTIONS = [
    "bounds re-derived from the documented stopping rules (Puterman 6.3/6.6); tolerance bound*(1+1e-9)+1e-9*scale",
    "no optimality bound is asserted for semi-async with the span test (the property states none)",
    "a run that reaches the iteration limit (4000 sweeps / 80 policy iterations) is not judged (not 'converged')",
]

MAXIT = {"vi": 4000, "sa": 4000, "pi": 80}


def plan(tier):
    def env(shard):
        k = (1, 1, 2, 3)[shard % 4]
        return {"XLA_FLAGS": f"--xla_force_host_platform_device_count={k}"}

    if tier == "quick":
        return dict(shards=16, examples=480, time_budget_s=500, min_nontrivial=60, env=env, shrink_cap_s=90)
    return dict(shards=16, examples=8000, time_budget_s=3400, min_nontrivial=400, env=env)


def strategy(tier, shard):
    from hypothesis import strategies as st

    @st.composite
    def cases(draw):
        kind = draw(st.sampled_from(["vi", "vi", "pi", "pi", "sa", "sa"]))
        gamma = draw(gammas_discounted)
        eps_exp = draw(st.sampled_from([-6, -5, -4, -3, -2, -1.5, -1, -0.5, 0, 0.5]))
        scale = 10.0 ** draw(st.integers(-2, 3))
        eps = float(scale * 10.0 ** eps_exp)
        if kind != "pi" and draw(st.integers(0, 6)) == 0:
            # discount factors next to 1 on finite-horizon MDPs (value iteration becomes exactly stationary after nS sweeps,
            # so the run converges however small eps (1-gamma)/gamma is)
            gamma = draw(st.sampled_from([0.999, 0.99999, 0.9999999]))
            # epsilon above any single reward (<= 10.5 scale): every sweep changes the values by less than epsilon, so a
            # threshold without the (1-gamma)/gamma factor stops at once, while the accumulated value of a long path
            # (up to nS * 10 scale) exceeds the bound epsilon
            eps = float(scale * draw(st.sampled_from([1e-1, 1.0, 12.0, 20.0, 20.0])))
            spec = draw(mdp_specs(max_states=12, min_states=6, scale=scale, chain="dag", structure=False, allow_v0=False))
            spec["flags"] = spec["flags"] + ["finite-horizon-gamma-near-1"]
            cfg = dict(solver=kind, gamma=gamma, eps=eps, test=draw(st.sampled_from(["span", "max_diff"])),
                       mbs=draw(st.integers(1, spec["nS"] + 3)))
            if kind == "sa":
                cfg["shuffle"] = draw(st.booleans())
                cfg["seed"] = draw(st.integers(0, 2**31 - 1))
            return dict(spec=spec, cfg=cfg)
        # near-tie actions differ by about the size of the value error the stopping rule tolerates
        spec = draw(mdp_specs(max_states=10, min_states=1, scale=scale, tie_unit=eps * (1 - gamma)))
        nS = spec["nS"]
        if spec["nA"] >= 2 and draw(st.integers(0, 4)) == 0:
            # tiny epsilon relative to the size of the values, and a pair of actions that are copies of each other except
            # for a per-step reward gap of c * eps (1-gamma)/gamma in every state (accumulated loss c * eps / gamma: allowed
            # for c = 0.3, beyond every documented bound for c = 3 and 6) - the gap is far below 1e-5 RELATIVE to the values,
            # so a tie-break that compares with a relative tolerance confuses the two; the worse copy may have the lower index
            eps = float(scale * 10.0 ** draw(st.sampled_from([-6, -5, -4])))
            a, b = draw(st.permutations(range(spec["nA"])))[:2]
            c = draw(st.sampled_from([0.3, 3.0, 3.0, 6.0]))
            spec = add_worse_copy(spec, a, b, c * eps * (1 - gamma) / gamma)
        elif spec["nA"] >= 2 and draw(st.integers(0, 2)) > 0:
            # a second action with different transitions whose optimal Q-value is a generated fraction of the
            # a-priori bound below the optimum
            unit = eps if kind != "sa" else eps * gamma / (1 - gamma)
            deltas = [draw(st.sampled_from([None, 0.0, 0.02, 0.1, 0.3, 0.6, 0.9, 1.2, 1.9])) for _ in range(nS)]
            deltas = [None if d is None else d * unit for d in deltas]
            spec = add_near_optimal_action(spec, gamma, deltas)
        cfg = dict(solver=kind, gamma=gamma, eps=eps, test=draw(st.sampled_from(["span", "max_diff"])),
                   mbs=draw(st.one_of(st.integers(1, nS + 3), st.integers(1, max(1, nS // 2)))))
        if kind == "sa":
            cfg["shuffle"] = draw(st.booleans())
            cfg["seed"] = draw(st.integers(0, 2**31 - 1))
        if kind == "pi":
            # ample evaluation budget: the bound of the stopping rule presumes that evaluation converged
            cfg["max_eval_iter"] = 20000
            cfg["reset"] = draw(st.booleans())
        return dict(spec=spec, cfg=cfg)

    return cases()


def judge(case):
    from vf import sut

    spec, cfg = case["spec"], case["cfg"]
    kind, gamma, eps, test = cfg["solver"], float(cfg["gamma"]), float(cfg["eps"]), cfg["test"]
    nS, nA = spec["nS"], spec["nA"]
    classes = spec_classes(spec) + [f"devices={sut.n_devices()}", f"{kind}-{test}"]
    if cfg.get("shuffle"):
        classes.append("shuffled")
    try:
        problem = sut.make_problem(spec)
        solver = sut.make_solver(problem, cfg)
        st = solver.solve(MAXIT[kind])
    except Exception as e:
        return verdict_fail(sut_bucket(e), f"raised {e!r}", classes=classes)
    it = int(st.info.iteration)
    values = np.asarray(st.values, dtype=np.float64)
    pol = np.asarray(st.policy)
    if values.shape != (nS,) or pol.shape[0] != nS:
        return verdict_fail("result-shape", f"values {values.shape} policy {pol.shape} nS={nS}", classes=classes)
    pidx = sut.policy_to_indices(spec, pol)
    if np.any(pidx < 0):
        return verdict_fail("policy-row-not-in-action-space", f"policy {pol.tolist()}", classes=classes)
    converged = it < MAXIT[kind]
    scale = ref_mdp.value_scale(spec, gamma)
    P, R = ref_mdp.dense(spec)
    Vstar, _ = ref_mdp.optimal_discounted(P, R, gamma)
    Vpi = ref_mdp.policy_value(P, R, pidx, gamma)
    tol = 1e-9 * (1 + scale)
    if np.any(Vpi > Vstar + 1e-7 * (1 + scale)):
        raise ref_mdp.OracleError("V_pi exceeds V*: oracle inconsistent")
    thr = ref_mdp.threshold(eps, gamma)
    if kind == "pi" and converged:
        # evaluation is a gamma-contraction: its measure is below the threshold after n_needed sweeps at the latest
        # (a-priori, independent of the solver), so with the generated budget it always finishes
        n_needed = np.log(thr / (6 * max(scale, 1e-300))) / np.log(gamma) + 2 if thr < 6 * scale else 1
        if n_needed > int(cfg["max_eval_iter"]):
            converged = False
            classes.append("pi-eval-budget-possibly-exhausted")
    if not converged:
        classes.append("not-converged")
        return verdict_ok(nontrivial=False, classes=classes)
    gap = float(np.max(Vstar - Vpi))
    bound = None
    if kind == "vi":
        bound = eps if test == "span" else 2 * eps
    elif kind == "pi":
        bound = eps / gamma if test == "span" else 2 * eps / gamma
    elif kind == "sa" and test == "max_diff":
        bound = 2 * gamma * eps / (1 - gamma)
    info = f"{kind}/{test} gamma={gamma} eps={eps:.6g} iteration={it} layout={sut.layout(solver)}"
    if bound is not None:
        if gap > bound * (1 + 1e-9) + tol:
            s = int(np.argmax(Vstar - Vpi))
            return verdict_fail("policy-not-within-bound",
                                f"{info}: V*-V_pi = {gap:.9g} at state {s} exceeds bound {bound:.9g}", classes=classes)
        if gap >= 0.1 * bound:
            classes.append("tight-policy")
    if test == "max_diff":
        if kind in ("vi", "sa"):
            d = float(np.max(np.abs(values - Vstar)))
            if d > eps * (1 + 1e-9) + tol:
                return verdict_fail("values-not-within-eps-of-optimal",
                                    f"{info}: |values-V*| = {d:.9g} > eps", classes=classes)
            if d >= 0.1 * eps:
                classes.append("tight-values")
        else:
            d = float(np.max(np.abs(values - Vpi)))
            if d > (eps / gamma) * (1 + 1e-9) + tol:
                return verdict_fail("pi-values-not-within-eps-over-gamma",
                                    f"{info}: |values-V_pi| = {d:.9g} > eps/gamma = {eps / gamma:.9g}", classes=classes)
            if d >= 0.1 * eps / gamma:
                classes.append("tight-values")
    nontrivial = nS >= 2 and nA >= 2 and it >= 2
    sample = dict(nS=nS, nA=nA, nE=spec["nE"], enc=spec["enc"], flags=spec["flags"], cfg=cfg, iteration=it,
                  gap=gap, bound=bound, layout=sut.layout(solver))
    return verdict_ok(nontrivial=nontrivial, classes=sorted(set(classes)), sample=sample)
