"""C05 — policy iteration: evaluation is accurate and termination means policy stability."""

from __future__ import annotations

import numpy as np

from vf import ref_mdp
from vf.gen_mdp import gammas_discounted, mdp_specs, spec_classes
from vf.runner import sut_bucket, verdict_fail, verdict_ok
from vf.tabular import action_vectors

ID = "C05"
LEVEL = "exploration"
RULE = (
    "Hypothesis generates a tabular MDP (1..9 states, 1..4 actions with 1- or 2-component action vectors, optional "
    "initial_policy / initial_value tables), a PolicyIteration configuration (gamma in (0,1), epsilon, both tests, "
    "reset on/off, max_eval_iter in {1,2,3,7,40,200}, max_batch_size), an ARBITRARY injected policy and value vector, "
    "and a limit K. (a) after assigning solver.policy / solver.values and solve(1) the returned values must equal a "
    "numpy replica of the documented evaluation loop (apply T_pi, test, return the last pre-update iterate) and, when "
    "that loop converged within budget under max_diff, lie within eps/gamma of the exact V_pi (linear solve); the "
    "returned policy must be greedy (numpy Q) for the returned values. (b) solve(K) on a fresh solver must stop at the "
    "first n at which a twin stepped with solve(1) shows policy_n == policy_(n-1) in every component of every state, "
    "and at K otherwise. (c) with an initial_policy table the solver's policy after construction equals it and the "
    "first evaluation evaluates it; otherwise the first policy maximises immediate expected reward. Shards run under "
    "1, 2 or 3 emulated devices. Non-trivial = nA>=2 and (>=2 PI iterations or injected policy with V_pi != V*); "
    "distinct = case digest."
)
ASSUMPTIONS = [
    "evaluation sweeps whose measure lies within 1e-9 (1+scale) of the threshold are borderline (case dropped)",
    "stepping with solve(1) observes the same policy sequence as one long call (composability, C08)",
]


def plan(tier):
    def env(shard):
        k = (1, 1, 2, 3)[shard % 4]
        return {"XLA_FLAGS": f"--xla_force_host_platform_device_count={k}"}

    if tier == "quick":
        return dict(shards=16, examples=320, time_budget_s=600, min_nontrivial=40, env=env, shrink_cap_s=90)
    return dict(shards=16, examples=5600, time_budget_s=3400, min_nontrivial=240, env=env)


def strategy(tier, shard):
    from hypothesis import strategies as st

    @st.composite
    def cases(draw):
        spec = draw(mdp_specs(max_states=9, min_states=1))
        nS, nA, sc = spec["nS"], spec["nA"], spec["scale"]
        cfg = dict(solver="pi", gamma=draw(gammas_discounted),
                   eps=float(sc * 10.0 ** draw(st.sampled_from([-5, -3, -2, -1, 0]))),
                   test=draw(st.sampled_from(["span", "max_diff"])), reset=draw(st.booleans()),
                   max_eval_iter=draw(st.sampled_from([1, 1, 2, 3, 7, 40, 200])),
                   mbs=draw(st.one_of(st.integers(1, nS + 2), st.integers(1, max(1, nS // 2)))))
        inj_policy = [draw(st.integers(0, nA - 1)) for _ in range(nS)]
        inj_values = [draw(st.integers(-20, 20)) * sc for _ in range(nS)]
        return dict(spec=spec, cfg=cfg, inj_policy=inj_policy, inj_values=inj_values, K=draw(st.integers(1, 8)))

    return cases()


def ref_evaluate(spec, cfg, pol, start):
    """Documented evaluation loop. Returns (values, converged_within_budget, borderline)."""
    gamma, eps, test = float(cfg["gamma"]), float(cfg["eps"]), cfg["test"]
    thr = ref_mdp.threshold(eps, gamma)
    _, rew, _ = ref_mdp.arrays(spec)
    v = np.asarray(start, dtype=np.float64)
    for _ in range(int(cfg["max_eval_iter"])):
        new = ref_mdp.policy_backup(spec, v, gamma, pol)
        m = ref_mdp.measure(test, new, v)
        btol = 1e-9 * (1 + float(np.max(np.abs(rew))) + float(np.max(np.abs(v))))
        if abs(m - thr) <= btol:
            return v, False, True
        if m < thr:
            return v, True, False
        v = new
    return v, False, False


def judge(case):
    from vf import sut
    import jax.numpy as jnp

    spec, cfg = case["spec"], case["cfg"]
    nS, nA = spec["nS"], spec["nA"]
    gamma, eps, test = float(cfg["gamma"]), float(cfg["eps"]), cfg["test"]
    K = int(case["K"])
    A = action_vectors(spec)
    classes = spec_classes(spec) + [f"devices={sut.n_devices()}", f"test-{test}", f"max_eval_iter={cfg['max_eval_iter']}",
                                    "reset" if cfg["reset"] else "no-reset"]
    nxt, rew, prb = ref_mdp.arrays(spec)
    rmax = float(np.max(np.abs(rew)))
    scale = ref_mdp.value_scale(spec, gamma)
    tol = 1e-9 * (1 + scale + float(np.max(np.abs(case["inj_values"]))))
    P, R = ref_mdp.dense(spec)
    try:
        problem = sut.make_problem(spec)
        solA = sut.make_solver(problem, cfg)
        solB = sut.make_solver(problem, cfg)
    except Exception as e:
        return verdict_fail(sut_bucket(e), f"construction raised {e!r}", classes=classes)
    if solA.n_pad:
        classes.append("padded")
    V0 = ref_mdp.initial_values(spec)
    # (c) the first policy
    p0 = np.asarray(solB.policy)
    p0idx = sut.policy_to_indices(spec, p0)
    if p0.shape[0] != nS or np.any(p0idx < 0):
        return verdict_fail("initial-policy-row-not-in-action-space", f"{p0.tolist()}", classes=classes)
    if spec.get("pol0") is not None:
        if not np.array_equal(p0idx, np.asarray(spec["pol0"])):
            return verdict_fail("initial-policy-ignored",
                                f"problem supplies {spec['pol0']}, solver starts from {p0idx.tolist()}", classes=classes)
    else:
        gap = R.max(axis=1) - R[np.arange(nS), p0idx]
        if gap.max() > 1e-9 * (1 + rmax):
            return verdict_fail("first-policy-not-myopic",
                                f"state {int(gap.argmax())}: immediate expected reward {gap.max():.6g} below the maximum",
                                classes=classes)
    # (b) twin stepping vs one long call
    pols = [p0]
    first_eval = None
    stable_at = None
    try:
        for n in range(1, K + 1):
            st = solB.solve(1)
            if n == 1:
                first_eval = np.asarray(st.values, dtype=np.float64)
            pols.append(np.asarray(st.policy))
            if int(st.info.iteration) != n:
                return verdict_fail("iteration-count", f"after {n} solve(1) calls iteration = {int(st.info.iteration)}",
                                    classes=classes)
            if stable_at is None and pols[-1].shape == pols[-2].shape and np.array_equal(pols[-1], pols[-2]):
                stable_at = n
                break
        stA = solA.solve(K)
    except Exception as e:
        return verdict_fail(sut_bucket(e), f"solve raised {e!r}", classes=classes)
    itA = int(stA.info.iteration)
    expect = stable_at if stable_at is not None else K
    if itA != expect:
        if itA < expect:
            # which component changed at the iteration where it stopped?
            return verdict_fail("stopped-while-policy-still-changing",
                                f"solve({K}) stopped at iteration {itA}; stepping shows the policy still changes until "
                                f"{'iteration ' + str(stable_at) if stable_at else 'the limit'}: "
                                f"{pols[itA - 1].tolist()} -> {pols[itA].tolist()}", classes=classes)
        return verdict_fail("continued-after-policy-stable",
                            f"solve({K}) ran to iteration {itA}; stepping shows a stable policy at iteration {stable_at}",
                            classes=classes)
    # first evaluation evaluates the first policy from the problem's initial values
    ref1, conv1, border1 = ref_evaluate(spec, cfg, p0idx, V0)
    if not border1:
        if first_eval.shape != (nS,) or np.max(np.abs(first_eval - ref1)) > tol:
            return verdict_fail("first-evaluation-wrong",
                                f"values after iteration 1 differ from the documented evaluation of the first policy by "
                                f"{np.max(np.abs(first_eval - ref1)):.6g}", classes=classes)
    # returned policy greedy for returned values
    vA = np.asarray(stA.values, dtype=np.float64)
    pA = sut.policy_to_indices(spec, np.asarray(stA.policy))
    if np.any(pA < 0):
        return verdict_fail("policy-row-not-in-action-space", f"{np.asarray(stA.policy).tolist()}", classes=classes)
    g, gaps = ref_mdp.greedy_ok(spec, vA, gamma, pA, 0)
    if g > 1e-9 * (1 + rmax + gamma * float(np.max(np.abs(vA)))):
        return verdict_fail("returned-policy-not-greedy",
                            f"state {int(gaps.argmax())}: chosen action is {g:.6g} below the maximum for the returned values",
                            classes=classes)
    # (a) arbitrary injected policy and values
    inj = np.asarray(case["inj_policy"], dtype=np.int64)
    injV = np.asarray(case["inj_values"], dtype=np.float64)
    try:
        solB.policy = jnp.asarray(A[inj])
        solB.values = jnp.asarray(injV)
        it_before = int(solB.iteration)
        stI = solB.solve(1)
    except Exception as e:
        return verdict_fail(sut_bucket(e), f"solve(1) with injected policy raised {e!r}", classes=classes)
    got = np.asarray(stI.values, dtype=np.float64)
    start = V0 if cfg["reset"] else injV
    refI, convI, borderI = ref_evaluate(spec, cfg, inj, start)
    if int(stI.info.iteration) != it_before + 1:
        return verdict_fail("iteration-count", f"solve(1) moved iteration {it_before} -> {int(stI.info.iteration)}", classes=classes)
    Vpi = ref_mdp.policy_value(P, R, inj, gamma)
    if borderI:
        classes.append("borderline")
    else:
        if got.shape != (nS,) or not np.all(np.isfinite(got)) or np.max(np.abs(got - refI)) > tol:
            s = int(np.argmax(np.abs(got - refI))) if got.shape == (nS,) else -1
            return verdict_fail("evaluation-not-documented-loop",
                                f"injected policy {inj.tolist()} max_eval_iter={cfg['max_eval_iter']} reset={cfg['reset']}: state {s} "
                                f"got {got[s] if s >= 0 else got.shape} expected {refI[s] if s >= 0 else nS}", classes=classes)
        if convI and test == "max_diff":
            d = float(np.max(np.abs(got - Vpi)))
            if d > (eps / gamma) * (1 + 1e-9) + tol:
                return verdict_fail("evaluation-not-within-eps-over-gamma",
                                    f"|values - V_pi| = {d:.6g} > eps/gamma = {eps / gamma:.6g}", classes=classes)
            classes.append("eval-converged-max_diff")
        pI = sut.policy_to_indices(spec, np.asarray(stI.policy))
        if np.any(pI < 0):
            return verdict_fail("policy-row-not-in-action-space", f"{np.asarray(stI.policy).tolist()}", classes=classes)
        g, gaps = ref_mdp.greedy_ok(spec, got, gamma, pI, 0)
        if g > 1e-9 * (1 + rmax + gamma * float(np.max(np.abs(got)))):
            return verdict_fail("improved-policy-not-greedy",
                                f"state {int(gaps.argmax())}: {g:.6g} below the maximum", classes=classes)
    Vstar, _ = ref_mdp.optimal_discounted(P, R, gamma)
    inj_subopt = bool(np.max(Vstar - Vpi) > 1e-6 * (1 + scale))
    if stable_at is not None:
        classes.append("stopped-by-stability")
    if len(A[0]) == 2 and any(np.any(pols[i][:, 1] != pols[i - 1][:, 1]) and np.all(pols[i][:, 0] == pols[i - 1][:, 0])
                              for i in range(1, len(pols))):
        classes.append("only-second-component-changed")
    nontrivial = nA >= 2 and (expect >= 2 or inj_subopt)
    sample = dict(nS=nS, nA=nA, nE=spec["nE"], enc=spec["enc"], cfg=cfg, K=K, stopped_at=itA, inj_policy=inj.tolist(),
                  flags=spec["flags"])
    return verdict_ok(nontrivial=nontrivial, classes=sorted(set(classes)), sample=sample)
