"""C07 — periodic value iteration: plain VI iterates with the documented period-span stop."""

from __future__ import annotations

import numpy as np

from vf import ref_mdp
from vf.gen_mdp import mdp_specs, spec_classes
from vf.runner import sut_bucket, verdict_fail, verdict_ok

ID = "C07"
LEVEL = "exploration"
RULE = (
    "Hypothesis generates a tabular MDP (free-form, hub chains that are unichain and aperiodic by construction, or "
    "phase-structured chains that are unichain and periodic with a generated period), a period 1..6 (>=2 when gamma "
    "is 1), gamma in (0,1], epsilon, history clearing on/off, batch size and an iteration limit below or above the "
    "period. Oracle: numpy plain VI iterates W_n and the documented measure (gamma=1: span(W_n - W_(n-p)); gamma<1: "
    "span of sum_j (W_j - W_(j-1))/gamma^(j-1) over the last p sweeps); the solver must stop at the first n>=p with "
    "measure < epsilon and never earlier, return values W_n and a policy that is greedy for them (numpy Q), and with "
    "history kept the circular buffer must hold W_(n-j) in slot (history_index - j) mod (p+1), history_index = n mod "
    "(p+1). For gamma = 1 on unichain chains every component of (V_n - V_(n-p))/p must be within epsilon/p of the "
    "optimal gain (average-reward Howard PI, cross-checked by policy enumeration when small). Borderline sweeps "
    "(measure within rounding of epsilon) end the case, except in the exact-arithmetic family shared with C08 (dyadic data, "
    "epsilon equal to a measure), where a tie is decided strictly. Non-trivial = converged with n > p+1 (buffer wrapped) or a "
    "periodic chain judged at gamma = 1; distinct = case digest."
)
ASSUMPTIONS = [
    "value_history / history_index are read from the returned solver state (documented fields of the solver info)",
    "the discounted measure is ill-conditioned (division by gamma^(j-1)): borderline tolerance grows by gamma^-n",
]


def plan(tier):
    def env(shard):
        k = (1, 1, 1, 2)[shard % 4]
        return {"XLA_FLAGS": f"--xla_force_host_platform_device_count={k}"}

    if tier == "quick":
        return dict(shards=16, examples=400, time_budget_s=600, min_nontrivial=25, env=env, shrink_cap_s=90)
    return dict(shards=16, examples=6400, time_budget_s=3400, min_nontrivial=240, env=env)


def strategy(tier, shard):
    from hypothesis import strategies as st

    from vf.checks.c08 import exact_tie_cases

    @st.composite
    def cases(draw):
        if draw(st.integers(0, 5)) == 0:
            # exact-arithmetic family (see C08): epsilon EQUALS the documented measure of some sweep; the solver must not stop there
            c = draw(exact_tie_cases(kinds=("pvi",)))
            return dict(spec=c["spec"], cfg=c["cfg"], limit=12, split=None, exact=True)
        mode = draw(st.sampled_from(["free", "hub", "phase", "phase"]))
        gamma = draw(st.sampled_from([1.0, 1.0, 0.5, 0.8, 0.9, 0.95])) if mode != "free" else draw(
            st.sampled_from([1.0, 0.3, 0.5, 0.8, 0.9, 0.95]))
        period = draw(st.integers(2 if gamma == 1.0 else 1, 6))
        if mode == "phase":
            chain_p = period if draw(st.integers(0, 3)) > 0 else draw(st.integers(2, 4))
            spec = draw(mdp_specs(max_states=10, min_states=chain_p, allow_pol0=False, chain=f"phase:{chain_p}", allow_int_v0=True,
                                  structure=False))
            spec["flags"] = spec["flags"] + [f"phase-chain-{chain_p}"]
        elif mode == "hub":
            spec = draw(mdp_specs(max_states=9, allow_pol0=False, chain="hub", allow_int_v0=True))
            spec["flags"] = spec["flags"] + ["hub-chain"]
        else:
            spec = draw(mdp_specs(max_states=9, allow_pol0=False, allow_int_v0=True))
        nS, sc = spec["nS"], spec["scale"]
        cfg = dict(solver="pvi", gamma=gamma, period=period, clear=draw(st.booleans()),
                   eps=float(sc * 10.0 ** draw(st.sampled_from([-4, -3, -2, -1, -1, 0, 0, 1]))),
                   mbs=draw(st.one_of(st.integers(1, nS + 2), st.integers(1, max(1, nS // 2)))))
        limit = draw(st.one_of(st.integers(1, period), st.sampled_from([60, 150, 400]), st.sampled_from([60, 150, 400]), st.sampled_from([period + 1, 2 * period + 3, 400])))
        # the limit may be reached in two calls (the second call must re-extract the policy, keep the history, ...)
        split = draw(st.one_of(st.none(), st.integers(1, max(1, limit - 1)))) if limit >= 2 else None
        return dict(spec=spec, cfg=cfg, limit=limit, split=split)

    return cases()


def judge(case):
    from vf import sut

    spec, cfg, limit = case["spec"], case["cfg"], int(case["limit"])
    nS = spec["nS"]
    gamma, p, eps = float(cfg["gamma"]), int(cfg["period"]), float(cfg["eps"])
    classes = spec_classes(spec) + [f"devices={sut.n_devices()}", "gamma=1" if gamma == 1 else "discounted",
                                    f"period={p}", "clear" if cfg["clear"] else "keep-history"]
    try:
        problem = sut.make_problem(spec)
        solver = sut.make_solver(problem, cfg)
        split = case.get("split")
        if split:
            st = solver.solve(int(split))
            classes.append("two-calls")
        else:
            st = solver.solve(limit)
    except Exception as e:
        return verdict_fail(sut_bucket(e), f"raised {e!r}", classes=classes)
    it = int(st.info.iteration)
    vals = np.asarray(st.values, dtype=np.float64)
    nxt, rew, prb = ref_mdp.arrays(spec)
    rmax = float(np.max(np.abs(rew)))
    # model
    exact = False
    if case.get("exact"):
        from vf.checks.c08 import _exact_ok

        exact = _exact_ok(spec, cfg, limit + 1)
        if exact:
            classes.append("exact-arithmetic")
    W = [ref_mdp.initial_values(spec)]
    n_stop = None
    borderline = False
    for n in range(1, limit + 1):
        W.append(ref_mdp.backup(spec, W[-1], gamma)[0])
        if n < p:
            continue
        if gamma == 1.0:
            m = ref_mdp.span(W[n] - W[n - p])
            btol = 1e-9 * (1 + rmax + float(np.max(np.abs(W[n]))))
        else:
            m = ref_mdp.span(sum((W[j] - W[j - 1]) / gamma ** (j - 1) for j in range(n - p + 1, n + 1)))
            sc_now = 1 + rmax + float(np.max(np.abs(W[n])))
            btol = 1e-9 * sc_now + 1e-13 * sc_now * p * gamma ** -n
        if exact and m == eps:
            classes.append("exact-tie-at-threshold")
        if not exact and abs(m - eps) <= btol:
            borderline = True
            break
        if m < eps:
            n_stop = n
            break
    if borderline:
        return verdict_ok(nontrivial=False, classes=classes + ["borderline"])
    if case.get("split"):
        k1 = int(case["split"])
        if n_stop is not None and n_stop <= k1:
            # the first call ends by convergence: judged as a single call with limit k1
            limit = k1
        else:
            try:
                st = solver.solve(limit - k1)
            except Exception as e:
                return verdict_fail(sut_bucket(e), f"second call solve({limit - k1}) raised {e!r}", classes=classes)
            it = int(st.info.iteration)
            vals = np.asarray(st.values, dtype=np.float64)
            classes.append("second-call-judged")
    expect = n_stop if n_stop is not None else limit
    if it < min(p, limit):
        return verdict_fail("stopped-before-a-full-period", f"period {p}, solve({limit}) stopped at iteration {it}", classes=classes)
    if it != expect:
        if it < expect:
            return verdict_fail("reported-convergence-above-threshold",
                                f"period {p} gamma {gamma} eps {eps:.4g}: stopped at {it}; the documented measure first falls below "
                                f"epsilon at {n_stop} (limit {limit})", classes=classes)
        return verdict_fail("continued-past-convergence",
                            f"period {p} gamma {gamma} eps {eps:.4g}: at iteration {it}; the documented measure is below epsilon at {n_stop}",
                            classes=classes)
    tol = 1e-9 * (1 + rmax + float(np.max(np.abs(W[it])))) * (max(1, it) if gamma == 1 else 1)
    if vals.shape != (nS,) or not np.all(np.isfinite(vals)) or np.max(np.abs(vals - W[it])) > tol:
        return verdict_fail("values-not-plain-vi-iterates",
                            f"after {it} sweeps max difference from the reference iterate {np.max(np.abs(vals - W[it])):.6g}",
                            classes=classes)
    pidx = sut.policy_to_indices(spec, np.asarray(st.policy))
    if np.any(pidx < 0):
        return verdict_fail("policy-row-not-in-action-space", f"{np.asarray(st.policy).tolist()}", classes=classes)
    g, gaps = ref_mdp.greedy_ok(spec, vals, gamma, pidx, 0)
    if g > 1e-9 * (1 + rmax + gamma * float(np.max(np.abs(vals)))):
        return verdict_fail("policy-not-greedy", f"state {int(gaps.argmax())}: {g:.6g} below the maximum", classes=classes)
    converged = n_stop is not None
    hist = st.info.value_history
    hidx = int(st.info.history_index)
    if int(st.info.period) != p:
        return verdict_fail("period-field", f"info.period = {st.info.period}", classes=classes)
    if converged and cfg["clear"]:
        if hist is not None:
            return verdict_fail("history-not-cleared", "clear_value_history_on_convergence=True but history kept", classes=classes)
    else:
        if hist is None:
            return verdict_fail("history-missing", "history is None although it should be kept", classes=classes)
        hist = np.asarray(hist, dtype=np.float64)
        if hist.shape != (p + 1, nS):
            return verdict_fail("history-shape", f"{hist.shape} != {(p + 1, nS)}", classes=classes)
        if hidx != it % (p + 1):
            return verdict_fail("history-index", f"history_index {hidx} != {it} mod {p + 1}", classes=classes)
        for j in range(0, min(p, it) + 1):
            slot = (hidx - j) % (p + 1)
            if np.max(np.abs(hist[slot] - W[it - j])) > tol:
                return verdict_fail("history-slot-content",
                                    f"slot {slot} should hold the iterate of sweep {it - j} (n={it}, j={j})", classes=classes)
        classes.append("history-checked")
    periodic_gain_checked = False
    if converged and gamma == 1.0 and any(f.startswith("phase-chain") or f == "hub-chain" for f in spec["flags"]):
        P, R = ref_mdp.dense(spec)
        gstar, h, _ = ref_mdp.optimal_gain_howard(P, R)
        en = ref_mdp.optimal_gain_enum(P, R, limit=2048)
        if en is not None and abs(en[0] - gstar) > 1e-7 * (1 + rmax):
            raise ref_mdp.OracleError(f"gain oracles disagree: {en[0]} vs {gstar}")
        d = (vals - W[it - p]) / p
        worst = float(np.max(np.abs(d - gstar)))
        if worst > eps / p * (1 + 1e-9) + 1e-9 * (1 + rmax) * max(1, it):
            return verdict_fail("period-difference-not-within-eps-of-optimal-gain",
                                f"(V_n - V_(n-p))/p deviates from g*={gstar:.9g} by {worst:.6g} > eps/p = {eps / p:.6g}", classes=classes)
        classes.append("gain-checked")
        if any(f == f"phase-chain-{p}" for f in spec["flags"]):
            classes.append("gain-checked-on-periodic-chain")
            periodic_gain_checked = True
    if converged:
        classes.append("converged")
        if it > p + 1:
            classes.append("buffer-wrapped")
    if limit < p:
        classes.append("limit-below-period")
    nontrivial = (converged and it > p + 1) or periodic_gain_checked
    sample = dict(nS=nS, nA=spec["nA"], nE=spec["nE"], cfg=cfg, limit=limit, stopped_at=it, flags=spec["flags"])
    return verdict_ok(nontrivial=nontrivial, classes=sorted(set(classes)), sample=sample)
