"""C08 — stopping rule, iteration accounting and composability of solve()."""

from __future__ import annotations

import numpy as np

from vf import ref_mdp
from vf.gen_mdp import mdp_specs, spec_classes
from vf.runner import HarnessError, sut_bucket, verdict_fail, verdict_ok

ID = "C08"
LEVEL = "exploration"
RULE = (
    "Hypothesis generates a call history: a tabular MDP (1..9 states, optional initial_value table), one of the "
    "solvers {VI, relative VI, periodic VI, semi-async fixed/shuffled, PI} with generated gamma (including 1 where "
    "allowed), epsilon, test, batch size, period, and 2..5 positive limits (k1..km) placed before and after the "
    "model's convergence iteration. A numpy reference solver applies the documented rule to the problem's own "
    "initial values and keeps its own sweep counter; after every solve(k) the solver's iteration must equal the "
    "model's, its values must equal the model's (plain VI iterates; relative VI: plain iterates up to an additive "
    "constant; semi-async: block Gauss-Seidel with the hooked order), and it must have stopped early iff the "
    "model's measure fell below the threshold (eps(1-gamma)/gamma; eps for gamma=1, relative and periodic VI). A "
    "twin solver given one call with the summed limit must return the same values, iteration and policy whenever "
    "no earlier call ended by convergence (PI is judged by this twin clause and the 'at most k' clause only). "
    "Sweeps whose measure lies within 1e-9 (1+scale) of the threshold are borderline: the case is dropped from "
    "there on - except in the exact-arithmetic family (a fifth of the cases: gamma in {1/2, 1}, probabilities k/4, "
    "integer rewards, epsilon set so that the threshold EQUALS the measure of a generated sweep; exactness is verified "
    "with rational arithmetic), where a tie is decided strictly: the solver must not stop at a measure equal to the threshold. Non-trivial = >=2 calls, some call ending at its limit and convergence reached; distinct = case digest."
)
ASSUMPTIONS = [
    "relative VI is compared with plain undiscounted iterates modulo an additive constant (independent of the "
    "choice of reference state)",
    "solve(0) is outside the property (positive limits only)",
]

F10 = "F10-pvi-solve-after-convergence-with-cleared-history"

KINDS = ["vi", "vi", "rvi", "pvi", "pvi", "sa", "sa", "pi"]


def plan(tier):
    def env(shard):
        k = (1, 1, 1, 2)[shard % 4]
        return {"XLA_FLAGS": f"--xla_force_host_platform_device_count={k}"}

    if tier == "quick":
        return dict(shards=16, examples=320, time_budget_s=600, min_nontrivial=30, env=env, shrink_cap_s=90)
    return dict(shards=16, examples=6400, time_budget_s=3400, min_nontrivial=240, env=env)


def _model_conv_iteration(spec, cfg, cap=400):
    """Generation-time estimate of the convergence sweep (numpy only; natural order for semi-async)."""
    kind = cfg["solver"]
    gamma = 1.0 if kind == "rvi" else float(cfg["gamma"])
    eps = float(cfg["eps"])
    thr = eps if kind in ("rvi", "pvi") else ref_mdp.threshold(eps, gamma)
    V = ref_mdp.initial_values(spec)
    hist = [V]
    for n in range(1, cap + 1):
        Vn = ref_mdp.backup(spec, V, gamma)[0]
        hist.append(Vn)
        if kind == "pvi":
            p = int(cfg["period"])
            if n >= p:
                if gamma == 1.0:
                    m = ref_mdp.span(Vn - hist[n - p])
                else:
                    m = ref_mdp.span(sum((hist[j] - hist[j - 1]) / gamma ** (j - 1) for j in range(n - p + 1, n + 1)))
                if m < thr:
                    return n
        else:
            test = "span" if kind == "rvi" else cfg.get("test", "span")
            if ref_mdp.measure(test, Vn, V) < thr:
                return n
        V = Vn
    return None


def exact_tie_cases(kinds=("vi", "vi", "rvi", "pvi", "sa")):
    from hypothesis import strategies as st

    @st.composite
    def _cases(draw):
        """All quantities are dyadic rationals with few bits (gamma in {1/2, 1}, probabilities k/4, integer rewards):
        every float operation of a sweep is exact in numpy and in the solver alike, so an exact tie between the
        measure and the threshold is decidable: the documented rule (strictly below) must NOT stop there."""
        kind = draw(st.sampled_from(list(kinds)))
        nS = draw(st.integers(2, 5))
        nA = draw(st.integers(1, 3))
        wts = draw(st.sampled_from([[1], [1, 1], [3, 1], [2, 1, 1], [1, 1, 1, 1]]))
        nE = len(wts)
        tot = float(sum(wts))
        hub = draw(st.integers(0, nS - 1))
        nxt = [[[draw(st.integers(0, nS - 1)) for _ in range(nE)] for _ in range(nA)] for _ in range(nS)]
        if kind in ("rvi", "pvi"):
            for s_ in range(nS):
                for a_ in range(nA):
                    nxt[s_][a_][draw(st.integers(0, nE - 1))] = hub
        rew = [[[float(draw(st.integers(-8, 8))) for _ in range(nE)] for _ in range(nA)] for _ in range(nS)]
        prb = [[[w / tot for w in wts] for _ in range(nA)] for _ in range(nS)]
        v0 = [float(draw(st.integers(-6, 6))) for _ in range(nS)] if draw(st.booleans()) else None
        spec = dict(nS=nS, nA=nA, nE=nE, next=nxt, reward=rew, prob=prb, v0=v0, pol0=None, scale=1.0, flags=["exact"],
                    enc=dict(state=draw(st.sampled_from(["ravel", "offset", "idcol"])), sdims=[nS] if True else None,
                             adims=[nA], edims=[nE], prob_shape="scalar"))
        if spec["enc"]["state"] == "idcol":
            spec["enc"]["sdims"] = [1]
        cfg = dict(solver=kind, mbs=draw(st.integers(1, nS + 1)), eps=1.0)
        if kind == "rvi":
            cfg["gamma"] = 1.0
        elif kind == "pvi":
            cfg["gamma"] = draw(st.sampled_from([1.0, 0.5]))
            cfg["period"] = draw(st.integers(2 if cfg["gamma"] == 1.0 else 1, 3))
            cfg["clear"] = False
        else:
            cfg["gamma"] = draw(st.sampled_from([0.5, 0.5, 1.0])) if kind == "vi" else 0.5
            cfg["test"] = draw(st.sampled_from(["span", "max_diff"]))
        if kind == "sa":
            cfg["shuffle"] = False
            cfg["seed"] = 0
        # choose epsilon so that the threshold equals the measure of a generated sweep exactly
        model = _Model(spec, cfg)
        from vf.tabular import state_vectors  # noqa: F401
        lay = None
        if kind == "sa":
            bs = min(cfg["mbs"], nS)
            lay = (1, -(-nS // bs), bs)  # single device layout (exact cases run on the first device count only)
        ms = []
        for _ in range(8):
            ms.append(model.sweep(lay, None))
        cands = [m for m in ms if 0 < m < float("inf")]
        if not cands:
            cfg["eps"] = 1.0
        else:
            m = cands[draw(st.integers(0, len(cands) - 1))]
            cfg["eps"] = float(m)  # thr = eps*(1-g)/g = eps for g = 1/2, and eps for g = 1 / rvi / pvi
        limits = [draw(st.integers(1, 4)) for _ in range(draw(st.integers(2, 3)))]
        return dict(spec=spec, cfg=cfg, limits=limits, exact=True)

    return _cases()


def strategy(tier, shard):
    from hypothesis import strategies as st

    @st.composite
    def cases(draw):
        if draw(st.integers(0, 4)) == 0:
            return draw(exact_tie_cases())
        kind = draw(st.sampled_from(KINDS))
        chain = "hub" if kind == "rvi" or draw(st.integers(0, 3)) == 0 else None
        spec = draw(mdp_specs(max_states=9, allow_pol0=(kind == "pi"), chain=chain))
        nS = spec["nS"]
        sc = spec["scale"]
        cfg = dict(solver=kind, mbs=draw(st.one_of(st.integers(1, nS + 2), st.integers(1, max(1, nS // 2)))))
        if kind == "rvi":
            cfg["gamma"] = 1.0
        elif kind == "pvi":
            cfg["gamma"] = draw(st.sampled_from([1.0, 0.5, 0.8, 0.9, 0.95]))
            cfg["period"] = draw(st.integers(2 if cfg["gamma"] == 1.0 else 1, 5))
            cfg["clear"] = draw(st.booleans())
        else:
            # values next to 1 (0.99999, 1 - 1e-7) exercise the threshold formula where (1-gamma)/gamma is tiny
            cfg["gamma"] = draw(st.sampled_from([0.3, 0.6, 0.8, 0.9, 0.95, 1.0, 0.99999, 0.9999999] if kind == "vi"
                                                else [0.3, 0.6, 0.8, 0.9, 0.95, 0.99999]))
        cfg["eps"] = float(sc * 10.0 ** draw(st.sampled_from([-4, -3, -2, -1, 0, 1])))
        if kind in ("vi", "sa", "pi"):
            cfg["test"] = draw(st.sampled_from(["span", "max_diff"]))
        if kind == "sa":
            cfg["shuffle"] = draw(st.booleans())
            cfg["seed"] = draw(st.integers(0, 10**6))
        if kind == "pi":
            cfg["max_eval_iter"] = draw(st.sampled_from([1, 3, 10, 100]))
            cfg["reset"] = draw(st.booleans())
        nconv = _model_conv_iteration(spec, cfg) if kind != "pi" else draw(st.integers(2, 6))
        target = nconv if nconv is not None else 40
        m = draw(st.integers(2, 5))
        # limits: partitions that end before, exactly at, and after the expected convergence sweep
        limits = []
        left = max(1, target + draw(st.integers(-3, 4)))
        for i in range(m):
            if i == m - 1:
                k = max(1, left)
            else:
                k = draw(st.integers(1, max(1, min(left, 1 + target // 2))))
            limits.append(int(min(k, 200)))
            left -= k
        if draw(st.booleans()):
            limits.append(draw(st.integers(1, 4)))  # a call after convergence
        return dict(spec=spec, cfg=cfg, limits=limits)

    return cases()


class _Model:
    def __init__(self, spec, cfg):
        self.spec, self.cfg = spec, cfg
        self.kind = cfg["solver"]
        self.gamma = 1.0 if self.kind == "rvi" else float(cfg["gamma"])
        eps = float(cfg["eps"])
        self.thr = eps if self.kind in ("rvi", "pvi") else ref_mdp.threshold(eps, self.gamma)
        self.n = 0
        self.V = ref_mdp.initial_values(spec)
        self.hist = [self.V]
        self.last_measure = None

    def sweep(self, layout=None, order=None):
        if self.kind == "sa":
            Vn = ref_mdp.block_gauss_seidel_sweep(self.spec, self.V, self.gamma, layout, order)
        else:
            Vn = ref_mdp.backup(self.spec, self.V, self.gamma)[0]
        self.n += 1
        self.hist.append(Vn)
        if self.kind == "pvi":
            p = int(self.cfg["period"])
            if self.n < p:
                m = float("inf")
            elif self.gamma == 1.0:
                m = ref_mdp.span(Vn - self.hist[self.n - p])
            else:
                m = ref_mdp.span(sum((self.hist[j] - self.hist[j - 1]) / self.gamma ** (j - 1)
                                     for j in range(self.n - p + 1, self.n + 1)))
        else:
            test = "span" if self.kind == "rvi" else self.cfg.get("test", "span")
            m = ref_mdp.measure(test, Vn, self.V)
        self.V = Vn
        self.last_measure = m
        return m


def _exact_ok(spec, cfg, n):
    """True iff n plain sweeps are exactly representable: the float iterates equal the iterates in rational arithmetic."""
    from fractions import Fraction

    kind = cfg["solver"]
    gamma = Fraction(1) if kind == "rvi" else Fraction(float(cfg["gamma"]))
    if n > 14:
        return False
    nxt, rew, prb = ref_mdp.arrays(spec)
    nS, nA, nE = nxt.shape
    V = [Fraction(float(x)) for x in ref_mdp.initial_values(spec)]
    Vf = ref_mdp.initial_values(spec)
    for _ in range(n):
        V = [max(sum(Fraction(float(prb[s, a, e])) * (Fraction(float(rew[s, a, e])) + gamma * V[int(nxt[s, a, e])])
                     for e in range(nE)) for a in range(nA)) for s in range(nS)]
        Vf = ref_mdp.backup(spec, Vf, float(gamma))[0]
        if any(Fraction(float(x)) != y for x, y in zip(Vf, V)):
            return False
        if max(abs(y.denominator).bit_length() + abs(y.numerator).bit_length() for y in V) > 48:
            return False
    return True


def _same_policy(spec, gamma, values, pa, pb, tol):
    if np.array_equal(pa, pb):
        return True
    from vf import sut

    ia, ib = sut.policy_to_indices(spec, pa), sut.policy_to_indices(spec, pb)
    if np.any(ia < 0) or np.any(ib < 0):
        return False
    Q = ref_mdp.q_values(spec, values, gamma)
    r = np.arange(len(ia))
    return bool(np.max(np.abs(Q[r, ia] - Q[r, ib])) <= tol)


def judge(case):
    from vf import sut

    spec, cfg, limits = case["spec"], case["cfg"], [int(k) for k in case["limits"]]
    kind = cfg["solver"]
    nS = spec["nS"]
    classes = spec_classes(spec) + [f"devices={sut.n_devices()}", f"solver-{kind}"]
    if cfg.get("shuffle"):
        classes.append("shuffled")
    try:
        problem = sut.make_problem(spec)
        solver = sut.make_solver(problem, cfg)
        twin = sut.make_solver(problem, cfg)
    except Exception as e:
        return verdict_fail(sut_bucket(e), f"construction raised {e!r}", classes=classes)
    lay = sut.layout(solver)
    model = _Model(spec, cfg)
    gamma = model.gamma
    exact = bool(case.get("exact")) and _exact_ok(spec, cfg, sum(limits) + 1) and (lay[0] == 1 or kind != "sa")
    if exact:
        classes.append("exact-arithmetic")
    nxt, rew, prb = ref_mdp.arrays(spec)
    rmax = float(np.max(np.abs(rew)))
    prev_it = 0
    any_limit_end = False
    any_conv = False
    earlier_conv = False
    borderline = False
    calls_done = 0
    for ci, k in enumerate(limits):
        cleared = kind == "pvi" and cfg.get("clear", True) and any_conv
        try:
            st = solver.solve(k)
        except Exception as e:
            if cleared and isinstance(e, TypeError):
                # known finding F10: solve() after convergence with the value history cleared
                return verdict_fail(sut_bucket(e), f"call {ci + 1} solve({k}) after convergence raised {e!r}",
                                    classes=classes, known=F10)
            return verdict_fail(sut_bucket(e), f"call {ci + 1} solve({k}) raised {e!r}", classes=classes)
        if cleared:
            classes.append("stopped:pvi-history-cleared-but-continued")
            break
        calls_done += 1
        it = int(st.info.iteration)
        vals = np.asarray(st.values, dtype=np.float64)
        if it - prev_it > k or it - prev_it < 1:
            return verdict_fail("more-than-k-sweeps", f"call {ci + 1}: solve({k}) moved iteration {prev_it} -> {it}",
                                classes=classes)
        if vals.shape != (nS,):
            return verdict_fail("result-shape", f"values shape {vals.shape}", classes=classes)
        if kind == "pi":
            ended_by_conv = it - prev_it < k
        else:
            # model: run the documented rule for this call
            ended_by_conv = False
            orders = getattr(solver, "_verif_orders", None)
            if kind == "sa" and orders is None:
                raise HarnessError("hook attribute _verif_orders missing (is MDPAX_VERIF=1?)")
            for j in range(k):
                order = None
                if kind == "sa":
                    if model.n >= len(orders):
                        # the solver performed fewer sweeps than the model needs: it stopped early
                        break
                    order = orders[model.n]
                m = model.sweep(lay, order)
                scale_now = rmax + float(np.max(np.abs(model.V)))
                btol = 1e-9 * (1 + scale_now)
                if kind == "pvi" and gamma < 1:
                    # the discounted period measure divides sweep differences by gamma^(j-1): rounding is amplified
                    btol += 1e-13 * (1 + scale_now) * int(cfg["period"]) * gamma ** -(model.n)
                if exact and m == model.thr:
                    classes.append("exact-tie-at-threshold")
                if not exact and abs(m - model.thr) <= btol:
                    borderline = True
                    break
                if m < model.thr:
                    ended_by_conv = True
                    break
            if borderline:
                classes.append("borderline")
                break
            if not ended_by_conv and model.n < prev_it + k:
                # (semi-async) the solver performed fewer sweeps than its limit without the measure falling below
                return verdict_fail("reported-convergence-above-threshold",
                                    f"call {ci + 1} solve({k}): solver stopped at iteration {it} < limit end {prev_it + k} while "
                                    f"the documented measure {model.last_measure} is not below {model.thr:.6g}", classes=classes)
            if it != model.n:
                if it < model.n:
                    return verdict_fail("reported-convergence-above-threshold",
                                        f"call {ci + 1} solve({k}): solver stopped at iteration {it}, the documented measure "
                                        f"first falls below {model.thr:.6g} at/after sweep {model.n} (limit end {prev_it + k})",
                                        classes=classes)
                return verdict_fail("continued-past-convergence",
                                    f"call {ci + 1} solve({k}): solver at iteration {it}, model stopped at sweep {model.n} "
                                    f"with measure {model.last_measure:.6g} < threshold {model.thr:.6g}", classes=classes)
            tol = 1e-9 * (1 + rmax + float(np.max(np.abs(model.V)))) * max(1, model.n if gamma == 1 else 1)
            diff = vals - model.V
            if kind == "rvi":
                diff = diff - diff[-1]
            if not np.all(np.isfinite(vals)) or np.max(np.abs(diff)) > tol:
                s = int(np.argmax(np.abs(diff)))
                return verdict_fail("values-not-n-reference-backups",
                                    f"call {ci + 1}: after {it} sweeps state {s} differs from the reference iterate by "
                                    f"{diff[s]:.6g} (tol {tol:.3g})", classes=classes)
        # twin: one call with the summed limit (only while no earlier call ended by convergence)
        if not earlier_conv:
            total = sum(limits[: ci + 1])
            if ci == 0 or (ci > 1 and ci < len(limits) - 1):
                pass  # first call is identical; intermediate prefixes are skipped to bound the cost
            else:
                try:
                    tw = sut.make_solver(problem, cfg)
                    ts = tw.solve(total)
                except Exception as e:
                    return verdict_fail(sut_bucket(e), f"twin solve({total}) raised {e!r}", classes=classes)
                if kind == "pi" and int(ts.info.iteration) <= sum(limits[:ci]):
                    # policy iteration converged exactly at the end of an earlier call (not observable from the
                    # iteration count alone): the precondition "stopped at its limit rather than by convergence" fails
                    earlier_conv = True
                    any_conv = True
                    prev_it = it
                    continue
                tv = np.asarray(ts.values, dtype=np.float64)
                ttol = 1e-12 * (1 + rmax + float(np.max(np.abs(vals))))
                if int(ts.info.iteration) != it:
                    return verdict_fail("split-calls-differ-from-single-call:iteration",
                                        f"solve{tuple(limits[: ci + 1])} -> iteration {it}; solve({total}) -> {int(ts.info.iteration)}",
                                        classes=classes)
                if np.max(np.abs(tv - vals)) > ttol:
                    return verdict_fail("split-calls-differ-from-single-call:values",
                                        f"solve{tuple(limits[: ci + 1])} vs solve({total}): max value difference {np.max(np.abs(tv - vals)):.6g}",
                                        classes=classes)
                if not _same_policy(spec, gamma, vals, np.asarray(st.policy), np.asarray(ts.policy), 1e-9 * (1 + rmax + float(np.max(np.abs(vals))))):
                    return verdict_fail("split-calls-differ-from-single-call:policy",
                                        f"solve{tuple(limits[: ci + 1])} vs solve({total}): policies differ beyond ties", classes=classes)
                classes.append("twin-compared")
        if ended_by_conv:
            any_conv = True
            earlier_conv = True
        else:
            any_limit_end = True
        prev_it = it
    nontrivial = calls_done >= 2 and any_limit_end and any_conv and not borderline
    if any_conv:
        classes.append("reached-convergence")
    if any_limit_end:
        classes.append("some-call-ended-at-limit")
    sample = dict(nS=nS, nA=spec["nA"], nE=spec["nE"], cfg=cfg, limits=limits, layout=lay, final_iteration=prev_it)
    return verdict_ok(nontrivial=nontrivial, classes=sorted(set(classes)), sample=sample)
