"""C11 — a crash at any moment leaves a restorable, untorn, correctly labelled checkpoint."""

from __future__ import annotations

import shutil
import sys
from pathlib import Path

from vf import ckpt
from vf.runner import HarnessError, verdict_fail, verdict_ok

ID = "C11"
LEVEL = "fault_enumeration"
RULE = (
    "Hypothesis generates a checkpointed run (deterministic solver: VI, PI, relative VI, periodic VI, semi-async fixed "
    "order; small Forest / De Moor / Hendrix / Mirjalili -> restore() route, or config-less tabular -> "
    "load_checkpoint route; frequency 1..2, retention 1..3 so that deletion runs on almost every save; sync or async) "
    "and 2-3 KILL PLANS owned by the harness: (1) program points - SIGKILL immediately before / after the j-th save() "
    "returns or after wait_until_finished; (2) the N-th file-system system call of a kind (rename, mkdir, unlink, "
    "rmdir, fsync; N <= 30, counted per thread) injected with strace -f -e inject=<call>:signal=KILL:when=N (without "
    "--seccomp-bpf, under which strace 6.1 never reaches when=N for N >= 2); (3) "
    "a generated busy-wait of 0..30 ms after the j-th save() returns, then SIGKILL (reaches in-flight background "
    "writes). Optionally the restoring process is itself killed by a second plan (crash-restore-crash). One "
    "un-killed dry run of the same scenario (up to 40 iterations or convergence) records solver_state at every save and the final state. Oracle, in a "
    "fresh process after each kill: restore either raises the documented no-checkpoint error - allowed only if the "
    "unbuffered progress log of the killed process shows that no save can have completed - or returns a state whose "
    "iteration L is a saved step and whose every field equals the dry run's snapshot of iteration L exactly; L must "
    "not be older than the last save known complete (sync: last returned save; async: the save before the last "
    "returned one, everything after wait_until_finished); continuing from it must reach the dry run's final state "
    "exactly. Non-trivial = the process really died by SIGKILL after its first save began; distinct = (scenario, "
    "kill plan) digest."
)
ASSUMPTIONS = [
    "process crash (SIGKILL) on a local Linux file system; power loss / page-cache durability is outside this check",
    "strace counts 'when=N' per thread; the stage that was hit is classified post mortem from the directory",
]

CALLS = ["rename", "mkdir", "unlink", "rmdir", "fsync"]
LIMIT = 40


def plan(tier):
    if tier == "quick":
        return dict(shards=16, examples=32, time_budget_s=900, min_nontrivial=4, shrink_cap_s=150)
    return dict(shards=16, examples=640, time_budget_s=3500, min_nontrivial=120)


def strategy(tier, shard):
    from hypothesis import strategies as st

    kill_plans = st.one_of(
        st.builds(lambda w, j: dict(family="point", when=w, j=j), st.sampled_from(["before_save", "after_save", "after_save", "after_wait"]),
                  st.integers(1, 40)),
        st.builds(lambda c, n: dict(family="syscall", call=c, n=n), st.sampled_from(CALLS), st.sampled_from([1, 2, 2, 3, 3, 4, 5, 6, 7, 8, 9, 10, 12, 20, 30])),
        st.builds(lambda j, d: dict(family="delay", j=j, delay_us=d), st.integers(1, 40),
                  st.one_of(st.integers(0, 3000), st.integers(0, 30000))),
    )

    @st.composite
    def cases(draw):
        problem = draw(ckpt.problem_descs(rot=shard))
        solver = draw(ckpt.solver_descs(rot=shard))
        solver["params"]["epsilon"] = draw(st.sampled_from([1e-3, 1e-4]))
        route = "load" if problem["kind"] == "tabular" else draw(st.sampled_from(["restore", "restore", "load"]))
        plans = [draw(kill_plans) for _ in range(draw(st.integers(2, 3)))]
        return dict(problem=problem, solver=solver, f=draw(st.integers(1, 2)), m=draw(st.integers(1, 3)), async_=draw(st.booleans()),
                    route=route, plans=plans,
                    # the run may consist of two solve() calls (checkpoints written by the second call hold a policy)
                    split=draw(st.sampled_from([None, None, 1, 2, 3])),
                    # the restoring process may be killed too; half of those kills come before it commits anything new
                    second_kill=draw(st.one_of(st.none(), kill_plans, st.just(dict(family="point", when="before_save", j=1)),
                                               st.builds(lambda d: dict(family="delay", j=1, delay_us=d), st.integers(0, 2000)))))

    return cases()


def _wrapper(plan):
    if plan["family"] != "syscall":
        return None
    c = plan["call"]
    return ["strace", "-f", "-o", "/dev/null", "-e", f"trace={c}", "-e", f"inject={c}:signal=KILL:when={int(plan['n'])}",
            sys.executable]


def _progress(path: Path):
    ev = []
    if path.exists():
        for line in path.read_text().splitlines():
            ev.append(line.split())
    return ev


def _known_complete(events, async_):
    """Largest step whose save is known to have completed before the kill (None if none)."""
    rets = [int(e[2]) for e in events if e and e[0] == "save-return"]
    enters = [int(e[2]) for e in events if e and e[0] == "save-enter"]
    if any(e and e[0] == "wait-finished" for e in events):
        return max(rets) if rets else None
    if not async_:
        return max(rets) if rets else None
    # async: a save call that starts a NEW step returns once the previous background save has been committed. A call
    # for a step that was already requested (the final save of a call repeating the periodic one) is skipped by Orbax
    # and returns at once, so only distinct steps count.
    distinct = sorted(set(rets))
    if len(distinct) >= 2:
        return distinct[-2]
    return None


def judge(case):
    problem, sdesc = case["problem"], case["solver"]
    kind = sdesc["kind"]
    classes = [f"solver-{kind}", f"problem-{problem['kind']}", f"route-{case['route']}", "async" if case["async_"] else "sync",
               f"m={case['m']}"]
    have_strace = shutil.which("strace") is not None
    base = ckpt.new_dir("c11")
    try:
        # dry run: the reference trajectory
        dry_dir = base / "dry"
        split = case.get("split")
        calls0 = [LIMIT] if not split else [int(split), LIMIT - int(split)]
        dry = ckpt.run_ok(dict(problem=problem, solver=ckpt.with_ckpt(sdesc, dry_dir, case["f"], case["m"], case["async_"]), calls=calls0, snapshot=True))
        if dry["error"]:
            return verdict_fail("dry-run:" + dry["error"]["bucket"], f"{dry['error']}", classes=classes)
        snaps, final = dry["snapshots"], dry["final"]
        n_saves = len(dry["saves"])
        if split:
            classes.append("two-calls")
            second_sweeps = dry["calls"][1]["iteration"] - dry["calls"][0]["iteration"] if len(dry["calls"]) > 1 else 0
            if dry["calls"][0]["iteration"] < int(split) or (second_sweeps == 1 and LIMIT - int(split) > 1):
                # (a second call of exactly one sweep means the first call had converged exactly at its limit)
                # the first call already converged: an uninterrupted single call from a restored state would stop earlier
                # than the two-call dry run continues; not a crash-consistency question
                return verdict_ok(nontrivial=False, classes=classes + ["first-call-converged"])
        if n_saves < 2:
            return verdict_ok(nontrivial=False, classes=classes + ["fewer-than-two-saves"])
        n_killed = 0
        stages = []
        for pi, plan in enumerate(case["plans"]):
            chain = [plan] + ([case["second_kill"]] if case.get("second_kill") and pi == 0 else [])
            d = base / f"k{pi}"
            events_all = []
            r_override = None
            chain_done = False
            for ci, kp in enumerate(chain):
                if r_override is not None:
                    break
                kp = dict(kp)
                if kp["family"] == "syscall" and not have_strace:
                    classes.append("strace-missing:plan-skipped")
                    break
                if kp["family"] in ("point", "delay") and not (ci > 0 and kp["j"] == 1):
                    kp["j"] = 1 + (kp["j"] - 1) % n_saves
                plog = base / f"progress-{pi}-{ci}.log"
                if ci == 0:
                    scen = dict(problem=problem, solver=ckpt.with_ckpt(sdesc, d, case["f"], case["m"], case["async_"]), calls=calls0,
                                snapshot=False, progress_log=str(plog), kill=kp if kp["family"] != "syscall" else None)
                elif case["route"] == "restore":
                    scen = dict(solver=dict(kind=kind, params={}), restore=dict(route="restore", dir=str(d)), until=LIMIT, snapshot=False,
                                progress_log=str(plog), kill=kp if kp["family"] != "syscall" else None)
                else:
                    scen = dict(problem=problem, solver=ckpt.with_ckpt(sdesc, d, case["f"], case["m"], case["async_"]),
                                restore=dict(route="load", dir=str(d)), until=LIMIT, snapshot=False, progress_log=str(plog),
                                kill=kp if kp["family"] != "syscall" else None)
                rep, rc, err = ckpt.run(scen, wrapper=_wrapper(kp))
                events = _progress(plog)
                events_all.append(events)
                rest = [int(e[1]) for e in events if e and e[0] == "restored"]
                if ci > 0 and rest and rest[0] >= final["iteration"]:
                    # the restoring process started from the FINAL checkpoint: the run had finished, anything it computes
                    # afterwards lies beyond the reference trajectory
                    classes.append("chain-element-restored-the-final-checkpoint")
                    chain_done = True
                    break
                died = rep is None
                label = f"plan {kp} (chain position {ci})"
                if died and rc not in (-9, 137):
                    raise HarnessError(f"worker ended without reply and not by SIGKILL (rc={rc}): {err[-800:]}")
                if not died:
                    # the kill point was never reached: the run completed; it must equal the dry run
                    res = rep["result"] if rep["ok"] else None
                    if res is None:
                        raise HarnessError(f"worker failed: {rep}")
                    if res["error"]:
                        if ci > 0 and res["error"]["stage"] == "build-or-restore":
                            pass  # judged below through the restore oracle
                        else:
                            return verdict_fail("unkilled-run:" + res["error"]["bucket"], f"{label}: {res['error']}", classes=classes)
                    stages.append("not-reached")
                    classes.append(f"kill-{kp['family']}-not-reached")
                    if ci == 0:
                        if not res["error"]:
                            bad = ckpt.state_equal(res["final"], final)
                            if bad:
                                return verdict_fail(f"unkilled-run-differs-from-dry-run:{bad}", f"{label}", classes=classes)
                        break  # no crash happened: nothing to restore from (a converged run is not continued)
                    r_override = res  # the restoring process was not killed: it is itself the restore-and-continue run
                else:
                    started = any(e and e[0] == "save-enter" for e in events)
                    finished = any(e and e[0] == "wait-finished" for e in events)
                    if started:
                        n_killed += 1
                    done, tmp = ckpt.steps_in(d)
                    stage = ("before-first-save" if not started else "after-wait" if finished else
                             "temporary-directory-present" if tmp else "between-commits")
                    stages.append(stage)
                    classes.append(f"kill-{kp['family']}:{stage}")
                # ---- restore oracle in a fresh process (and continue to the end)
                if case["route"] == "restore":
                    rscen = dict(solver=dict(kind=kind, params={}), restore=dict(route="restore", dir=str(d)), until=LIMIT, snapshot=False)
                else:
                    rscen = dict(problem=problem, solver=ckpt.with_ckpt(sdesc, d, case["f"], case["m"], case["async_"]),
                                 restore=dict(route="load", dir=str(d)), until=LIMIT, snapshot=False)
                if chain_done:
                    break
                if r_override is None and ci + 1 < len(chain):
                    continue  # the next chain element restores (and is killed) itself; judged after it
                r = r_override if r_override is not None else ckpt.run_ok(rscen)
                # what is known complete over the whole chain
                known = None
                prior = events_all[:-1] if r_override is not None else events_all  # what had completed BEFORE this restore
                for evs in prior:
                    k = _known_complete(evs, case["async_"])
                    if k is not None:
                        known = k if known is None else max(known, k)
                built = any(e and e[0] == "built" for evs in prior for e in evs)
                if r["error"]:
                    e = r["error"]
                    clean = (e["etype"] == "ValueError" and "No checkpoints found" in e["msg"]) or \
                            (e["etype"] == "FileNotFoundError" and "config" in e["msg"].lower())
                    if not clean or e["stage"] != "build-or-restore":
                        return verdict_fail("restore-after-crash-raised:" + e["bucket"],
                                            f"{kind}/{problem['kind']} {label} stage={stages[-1]}: {e['etype']}: {e['msg'][:300]}", classes=classes)
                    if known is not None:
                        return verdict_fail("completed-checkpoint-lost",
                                            f"{label}: save of step {known} had completed before the kill, but restore says: {e['msg'][:200]}", classes=classes)
                    if e["etype"] == "FileNotFoundError" and built and case["route"] == "restore":
                        return verdict_fail("config-file-lost", f"{label}: solver construction had finished, config.yaml is missing", classes=classes)
                    classes.append("clean-failure-nothing-completed")
                    continue
                got = r["restored"]
                L = got["iteration"]
                snap = snaps.get(str(L))
                if snap is None:
                    return verdict_fail("restored-iteration-was-never-saved", f"{label}: restored iteration {L}, saves in the reference run: {dry['saves']}",
                                        classes=classes)
                fields = ("iteration", "values", "policy", "gain", "history", "history_index", "period")
                if len(chain) > 1 and kind != "pi":
                    # which (output-only) policy a mid-run checkpoint stores depends on the call history of the process that
                    # wrote it; a restoring process is a different call history than the dry run
                    fields = tuple(f for f in fields if f != "policy")
                bad = ckpt.state_equal(got, snap, fields)
                if bad:
                    return verdict_fail(f"torn-or-mislabelled-checkpoint:{bad}",
                                        f"{kind}/{problem['kind']} {label} stage={stages[-1]}: step {L} restored with field '{bad}' different from what the "
                                        f"solver held at iteration {L}", classes=classes)
                if known is not None and L < known:
                    return verdict_fail("restored-older-than-last-completed-save", f"{label}: restored {L}, but the save of step {known} had completed",
                                        classes=classes)
                if L == final["iteration"]:
                    classes.append("restored-the-final-checkpoint")
                    continue  # the run had finished: the restored state IS the final state (compared above), nothing to continue
                bad = ckpt.state_equal(r["final"], final)
                if bad:
                    return verdict_fail(f"continuation-after-crash-differs:{bad}", f"{label}: resumed from {L}, final field '{bad}' differs from the uninterrupted run",
                                        classes=classes)
        sample = dict(kind=kind, problem=problem["kind"], route=case["route"], f=case["f"], m=case["m"], async_=case["async_"],
                      plans=case["plans"], second_kill=case.get("second_kill"), stages=stages, n_saves=n_saves)
        return verdict_ok(nontrivial=n_killed >= 1, classes=sorted(set(classes)), sample=sample)
    finally:
        ckpt.cleanup(base)
