"""C17 — explicit matrices describe the same MDP as the functional description."""

from __future__ import annotations

import re

import numpy as np

from vf import ref_mdp
from vf.gen_mdp import mdp_specs, spec_classes
from vf.runner import sut_bucket, verdict_fail, verdict_ok

ID = "C17"
LEVEL = "exploration"
RULE = (
    "Hypothesis generates a tabular problem (1..9 states, 1..4 actions, 1..4 events; several events leading to the same "
    "successor arise freely; single-event problems; scalar or 1-element-array probabilities; all encodings), a "
    "normalization_tolerance in [1e-8, 0.25] (and exactly 0 together with a mass defect of 1/8) and optionally one (state, action) row whose probability mass is 1 +- "
    "delta with delta a generated multiple (0.01..50) of the tolerance. Oracle: numpy accumulation of P[a,s,s'] "
    "(total probability of the events leading to s') and R[s,a] (expected reward); if delta > tolerance a ValueError "
    "naming exactly that (state, action) pair must be raised; otherwise P must equal the accumulation with rows "
    "renormalised to one (1e-9), R the expected reward, and (for a third of the cases) the exact V* of the returned "
    "matrices (numpy Howard PI) must agree within epsilon with a max_diff ValueIteration run on the functional "
    "problem. Non-trivial = some (a,s) row where >= 2 events with positive probability share a successor; "
    "error-path cases are counted in their own class; distinct = case digest. Two thirds of the tabular cases first call the builder on "
    "the same problem object with other tolerances (looser, stricter, both, or the same): the judged call must be unaffected by that history. A sixth of the cases instead take a small "
    "parameterisation of a shipped problem (S*A*E <= 4000) and compare the builder's matrices with matrices accumulated from "
    "the independent scalar reference models (vf.ref_problems)."
)
ASSUMPTIONS = [
    "mass defects within 1e-9 relative of the tolerance are not generated (factor grid avoids 1.0)",
    "the message format 'state <i>, action <j>' is used to read the named pair",
]


def plan(tier):
    if tier == "quick":
        return dict(shards=16, examples=480, time_budget_s=600, min_nontrivial=60, shrink_cap_s=90)
    return dict(shards=16, examples=8000, time_budget_s=3400, min_nontrivial=400)


def strategy(tier, shard):
    from hypothesis import strategies as st

    from vf import shipped

    @st.composite
    def cases(draw):
        if draw(st.integers(0, 5)) == 0:
            kind = draw(st.sampled_from(["forest", "de_moor", "hendrix", "mirjalili"]))
            return dict(shipped=dict(kind=kind, params=draw(shipped.param_strategy(kind, 4000))))
        spec = draw(mdp_specs(max_states=9, allow_pol0=False))
        nS, nA = spec["nS"], spec["nA"]
        tol = draw(st.sampled_from([1e-8, 1e-6, 1e-4, 1e-4, 1e-3, 1e-2, 1e-1, 0.25]))
        defect = None
        if draw(st.integers(0, 2)) > 0:
            defect = dict(s=draw(st.integers(0, nS - 1)), a=draw(st.integers(0, nA - 1)),
                          factor=draw(st.sampled_from([0.01, 0.3, 0.9, 1.1, 2.0, 7.0, 50.0])),
                          sign=draw(st.sampled_from([-1, 1])))
        if defect is not None and draw(st.integers(0, 5)) == 0:
            tol = 0.0  # tolerance 0: any real deviation must be reported (the defect is then a fixed 1/8 of the mass)
        # earlier calls of the builder on the SAME problem object with other tolerances (looser and/or stricter): the judged
        # call must not depend on that history ("all tolerances" holds per call)
        history = draw(st.sampled_from(["none", "none", "loose-first", "strict-first", "loose-then-strict", "same-first"]))
        return dict(spec=spec, tol=tol, defect=defect, solve=draw(st.integers(0, 2)) == 0,
                    gamma=draw(st.sampled_from([0.5, 0.8, 0.9])), history=history)

    return cases()


def judge_shipped(case):
    """Shipped problems: the builder's matrices against matrices accumulated from the independent scalar models."""
    import vf.sut  # noqa: F401
    from vf import ref_problems as rp
    from vf import shipped

    kind, params = case["shipped"]["kind"], case["shipped"]["params"]
    classes = ["shipped", f"shipped-{kind}"]
    try:
        problem = shipped.build_sut(kind, params)
        P, R = problem.build_transition_and_reward_matrices()
    except Exception as e:
        return verdict_fail(sut_bucket(e), f"{kind} {params}: raised {e!r}", classes=classes)
    ref = rp.REFS[kind](**params)
    S, A, E = ref.states(), ref.actions(), ref.events()
    index = {tuple(s): i for i, s in enumerate(S)}
    nS, nA = len(S), len(A)
    Pr = np.zeros((nA, nS, nS))
    Rr = np.zeros((nS, nA))
    for i, s in enumerate(S):
        for j, a in enumerate(A):
            for e in E:
                p = ref.prob(s, a, e)
                if p == 0.0:
                    continue
                ns, r = ref.step(s, a, e)
                Pr[j, i, index[tuple(ns)]] += p
                Rr[i, j] += p * r
    P, R = np.asarray(P, dtype=np.float64), np.asarray(R, dtype=np.float64)
    if P.shape != Pr.shape or R.shape != Rr.shape:
        return verdict_fail("matrix-shape", f"{kind}: P {P.shape} R {R.shape}, expected {Pr.shape} {Rr.shape}", classes=classes)
    if np.max(np.abs(P.sum(axis=2) - 1.0)) > 1e-9:
        return verdict_fail("rows-do-not-sum-to-one", f"{kind} {params}", classes=classes)
    if np.max(np.abs(P - Pr)) > 5e-5:
        i = np.unravel_index(int(np.argmax(np.abs(P - Pr))), P.shape)
        return verdict_fail("transition-entry-wrong", f"{kind} {params}: P[a={i[0]}, s={S[i[1]]}, s'={S[i[2]]}] = {P[i]!r}, reference model {Pr[i]!r}", classes=classes)
    rscale = 1 + float(np.max(np.abs(Rr)))
    if np.max(np.abs(R - Rr)) > 1e-4 * rscale:
        i = np.unravel_index(int(np.argmax(np.abs(R - Rr))), R.shape)
        return verdict_fail("reward-entry-wrong", f"{kind} {params}: R[s={S[i[0]]}, a={A[i[1]]}] = {R[i]!r}, reference model {Rr[i]!r}", classes=classes)
    return verdict_ok(nontrivial=nS * nA >= 4, classes=classes, sample=dict(kind=kind, params=params, S=nS, A=nA, E=len(E)))


def judge(case):
    import copy

    from vf import sut

    if case.get("shipped"):
        return judge_shipped(case)

    spec = copy.deepcopy(case["spec"])
    nS, nA, nE = spec["nS"], spec["nA"], spec["nE"]
    tol = float(case["tol"])
    defect = case.get("defect")
    classes = spec_classes(spec)
    delta = 0.0
    if defect:
        delta = float(defect["factor"]) * tol * int(defect["sign"]) if tol > 0 else 0.125 * int(defect["sign"])
        if 1 + delta <= 0.05:
            delta = -0.5
        s, a = int(defect["s"]), int(defect["a"])
        spec["prob"][s][a] = [p * (1 + delta) for p in spec["prob"][s][a]]
    nxt, rew, prb = ref_mdp.arrays(spec)
    P_raw, R_raw = ref_mdp.dense(spec)
    rows = P_raw.sum(axis=2)  # [A,S]
    dev = np.abs(rows - 1.0)
    expect_error = bool(dev.max() > tol)
    rmax = float(np.max(np.abs(rew)))
    try:
        problem = sut.make_problem(spec)
    except Exception as e:
        return verdict_fail(sut_bucket(e), f"construction raised {e!r}", classes=classes)
    history = case.get("history") or "none"
    if history != "none":
        classes.append(f"history-{history}")
        loose, strict = max(100.0 * tol, 4.0 * abs(delta), 1e-3), tol / 100.0
        pre = {"loose-first": [loose], "strict-first": [strict], "loose-then-strict": [loose, strict], "same-first": [tol]}[history]
        for t in pre:
            try:
                problem.build_transition_and_reward_matrices(normalization_tolerance=t)
            except ValueError:
                pass  # an earlier call may legitimately reject the problem at its own tolerance
            except Exception as e:
                return verdict_fail(sut_bucket(e), f"matrix builder (earlier call, tolerance {t}) raised {e!r}", classes=classes)
    try:
        P, R = problem.build_transition_and_reward_matrices(normalization_tolerance=tol)
        raised = None
    except ValueError as e:
        raised = e
    except Exception as e:
        return verdict_fail(sut_bucket(e), f"matrix builder raised {e!r}", classes=classes)
    if expect_error:
        classes.append("error-path")
        if raised is None:
            return verdict_fail("defect-above-tolerance-accepted",
                                f"row (state {s}, action {a}) sums to {rows[a, s]!r}, tolerance {tol}: output returned "
                                f"instead of ValueError", classes=classes)
        m = re.search(r"state\s+(\d+),\s*action\s+(\d+)", str(raised))
        if not m:
            return verdict_fail("error-does-not-name-the-pair", f"message: {raised}", classes=classes)
        es, ea = int(m.group(1)), int(m.group(2))
        if dev[ea % nA, es % nS] < dev.max() - 1e-12 or es >= nS or ea >= nA:
            return verdict_fail("error-names-wrong-pair",
                                f"message names state {es}, action {ea}; the deviating row is state {s}, action {a}", classes=classes)
        return verdict_ok(nontrivial=True, classes=classes, sample=dict(nS=nS, nA=nA, nE=nE, tol=tol, delta=delta, named=[es, ea]))
    if raised is not None:
        return verdict_fail("valid-problem-rejected", f"max row deviation {dev.max():.3g} <= tolerance {tol} but raised: {raised}",
                            classes=classes)
    P = np.asarray(P, dtype=np.float64)
    R = np.asarray(R, dtype=np.float64)
    if P.shape != (nA, nS, nS) or R.shape != (nS, nA):
        return verdict_fail("matrix-shape", f"P {P.shape} R {R.shape}", classes=classes)
    P_exp = P_raw / np.where(rows > 0, rows, 1.0)[:, :, None]
    if not np.all(np.isfinite(P)) or np.max(np.abs(P - P_exp)) > 1e-9:
        i = np.unravel_index(int(np.argmax(np.abs(P - P_exp))), P.shape)
        return verdict_fail("transition-entry-wrong",
                            f"P[a={i[0]}, s={i[1]}, s'={i[2]}] = {P[i]!r}, expected {P_exp[i]!r}", classes=classes)
    if np.max(np.abs(P.sum(axis=2) - 1.0)) > 1e-9:
        return verdict_fail("rows-do-not-sum-to-one", f"max deviation {np.max(np.abs(P.sum(axis=2) - 1.0)):.3g}", classes=classes)
    rtol = 1e-9 * (1 + rmax) + 2 * abs(delta) * rmax
    if np.max(np.abs(R - R_raw)) > rtol:
        i = np.unravel_index(int(np.argmax(np.abs(R - R_raw))), R.shape)
        return verdict_fail("reward-entry-wrong", f"R[s={i[0]}, a={i[1]}] = {R[i]!r}, expected {R_raw[i]!r}", classes=classes)
    if defect:
        classes.append("defect-within-tolerance")
    if case.get("solve") and not defect:
        gamma = float(case["gamma"])
        eps = 1e-6 * (1 + rmax)
        Vm, _ = ref_mdp.optimal_discounted(P, R, gamma)
        try:
            solver = sut.make_solver(problem, dict(solver="vi", gamma=gamma, eps=eps, test="max_diff", mbs=64))
            st = solver.solve(5000)
        except Exception as e:
            return verdict_fail(sut_bucket(e), f"functional solve raised {e!r}", classes=classes)
        if int(st.info.iteration) < 5000:
            d = float(np.max(np.abs(np.asarray(st.values) - Vm)))
            if d > eps * (1 + 1e-6) + 1e-9 * (1 + rmax / (1 - gamma)):
                return verdict_fail("matrices-and-functions-solve-differently",
                                    f"|V*(matrices) - V(functional VI)| = {d:.6g} > eps {eps:.3g}", classes=classes)
            classes.append("solved-both-ways")
    shared = False
    for s_ in range(nS):
        for a_ in range(nA):
            pos = [int(nxt[s_, a_, e]) for e in range(nE) if prb[s_, a_, e] > 0]
            if len(pos) != len(set(pos)):
                shared = True
    if shared:
        classes.append("events-share-successor")
    sample = dict(nS=nS, nA=nA, nE=nE, enc=spec["enc"], tol=tol, delta=delta, flags=spec["flags"])
    return verdict_ok(nontrivial=shared, classes=sorted(set(classes)), sample=sample)
