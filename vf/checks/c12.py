"""C12 — checkpoint cadence and retention follow frequency and max_checkpoints."""

from __future__ import annotations

from pathlib import Path

import numpy as np

from vf import ckpt, ref_mdp, workers
from vf.runner import HarnessError, verdict_fail, verdict_ok

ID = "C12"
LEVEL = "exploration"
RULE = (
    "Hypothesis generates histories: checkpoint_frequency f in 0..4, max_checkpoints m in 1..3, sync/async, a solver "
    "(all five) on a small tabular (config-less) or shipped problem, 1..3 solve() calls whose limits fall before / on / "
    "after multiples of f and before / after convergence, and optionally a restore in a fresh process mid-sequence "
    "(latest or an explicit older step, into the same or a new directory). Model: saved = {multiples of f} u {last "
    "iteration of each call} (iteration ends are taken from the solver), retained = the m largest; a new directory "
    "starts empty. After the last call and wait_until_finished the committed step directories must equal the model's "
    "retained set, no temporary directory may remain, the last iteration of the most recent call must be present, "
    "every retained step must load (one hand-built solver, load_checkpoint) to exactly the state snapshotted when "
    "save(step) was called - and for tabular VI also to the numpy iterate W_step - config.yaml must exist exactly "
    "when the problem carries a configuration, and with f = 0 the directory must not be created. Non-trivial = f > 0, "
    ">= 2 saves and retention actually discarding a step or a restore in the history; distinct = case digest."
)
ASSUMPTIONS = ["iteration at the end of each call is taken from the solver (the stopping rule is C08's subject)"]

F9 = "F9-final-save-skipped-after-restoring-older-step-into-same-directory"


def plan(tier):
    if tier == "quick":
        return dict(shards=16, examples=96, time_budget_s=800, min_nontrivial=8, shrink_cap_s=120)
    return dict(shards=16, examples=960, time_budget_s=3400, min_nontrivial=100)


def strategy(tier, shard):
    from hypothesis import strategies as st

    @st.composite
    def cases(draw):
        problem = draw(ckpt.problem_descs(rot=shard))
        solver = draw(ckpt.solver_descs(allow_shuffle=True, rot=shard))
        f = draw(st.sampled_from([1, 2, 3, 4, 2, 3, 1, 2, 0]))
        calls = [draw(st.integers(1, 9)) for _ in range(draw(st.sampled_from([1, 2, 2, 3])))]
        rs = None
        if f > 0 and len(calls) >= 2 and draw(st.integers(0, 3)) > 0:
            rs = dict(after_call=draw(st.integers(1, len(calls) - 1)), step=draw(st.sampled_from(["latest", "latest", "older"])),
                      new_dir=draw(st.booleans()), route="restore" if problem["kind"] != "tabular" and draw(st.booleans()) else "load",
                      freq0=draw(st.integers(0, 2)) == 0)
        return dict(problem=problem, solver=solver, f=f, m=draw(st.integers(1, 3)), async_=draw(st.booleans()), calls=calls, restore=rs)

    return cases()


def model_retained(saved, m):
    return sorted(sorted(set(saved))[-m:])


def judge(case):
    problem, sdesc = case["problem"], case["solver"]
    kind, f, m = sdesc["kind"], int(case["f"]), int(case["m"])
    classes = [f"solver-{kind}", f"problem-{problem['kind']}", f"f={f}", f"m={m}", "async" if case["async_"] else "sync"]
    base = ckpt.new_dir("c12")
    dirA, dirB = base / "a", base / "b"
    try:
        rs = case.get("restore")
        calls = [int(k) for k in case["calls"]]
        seg1 = calls if not rs else calls[: rs["after_call"]]
        r1 = ckpt.run_ok(dict(problem=problem, solver=ckpt.with_ckpt(sdesc, dirA, f, m, case["async_"]), calls=seg1, snapshot=True))
        if r1["error"]:
            return verdict_fail("run:" + r1["error"]["bucket"], f"{kind}/{problem['kind']} f={f} m={m}: {r1['error']}", classes=classes)
        if f == 0:
            if dirA.exists() or r1["attrs"]["has_manager"]:
                return verdict_fail("frequency-zero-wrote-something", f"directory exists: {dirA.exists()}, manager: {r1['attrs']['has_manager']}", classes=classes)
            return verdict_ok(nontrivial=False, classes=classes, sample=dict(kind=kind, f=0, calls=calls))
        snaps = dict(r1["snapshots"])
        ends = [c["iteration"] for c in r1["calls"]]
        saved = {n for n in range(1, ends[-1] + 1) if n % f == 0} | set(ends)
        dirs = {"a": set(saved)}
        active = "a"
        last_end = ends[-1]
        f9_region = False
        if rs:
            classes.append(f"restore-{rs['step']}-{'new' if rs['new_dir'] else 'same'}-dir")
            stepsA, tmpA = ckpt.steps_in(dirA)
            if not stepsA:
                return verdict_fail("nothing-retained", f"after calls {seg1}: directory holds {stepsA}", classes=classes)
            step = None if rs["step"] == "latest" or len(stepsA) < 2 else stepsA[0]
            start = max(stepsA) if step is None else step
            seg2 = calls[rs["after_call"]:]
            freq0 = bool(rs.get("freq0")) and rs["route"] == "restore"
            if rs["route"] == "restore":
                o = {"new_checkpoint_dir": str(dirB)} if rs["new_dir"] else {}
                if freq0:
                    o["checkpoint_frequency"] = 0  # "with f = 0 nothing is written and no directory is created"
                    classes.append("restore-with-frequency-0")
                scen = dict(solver=dict(kind=kind, params={}), restore=dict(route="restore", dir=str(dirA), step=step, overrides=o),
                            calls=seg2, snapshot=True)
            else:
                scen = dict(problem=problem, solver=ckpt.with_ckpt(sdesc, dirB if rs["new_dir"] else dirA, f, m, case["async_"]),
                            restore=dict(route="load", dir=str(dirA), step=step), calls=seg2, snapshot=True)
            r2 = ckpt.run_ok(scen)
            if r2["error"]:
                return verdict_fail("run-after-restore:" + r2["error"]["bucket"], f"{kind}/{problem['kind']}: {r2['error']}", classes=classes)
            if freq0:
                hashA = ckpt.tree_hash(dirA)  # taken after the restoring run: compare with the state before it
                stepsA2, _ = ckpt.steps_in(dirA)
                if r2["attrs"]["has_manager"] or dirB.exists() or stepsA2 != stepsA:
                    return verdict_fail("frequency-zero-wrote-something",
                                        f"restore(..., checkpoint_frequency=0) then solve{tuple(seg2)}: manager={r2['attrs']['has_manager']}, new directory "
                                        f"exists={dirB.exists()}, original steps {stepsA} -> {stepsA2}", classes=classes)
                return verdict_ok(nontrivial=True, classes=classes, sample=dict(kind=kind, f=f, m=m, calls=calls, restore=rs))
            ends2 = [c["iteration"] for c in r2["calls"]]
            new_saved = {n for n in range(start + 1, ends2[-1] + 1) if n % f == 0} | set(ends2)
            if rs["new_dir"]:
                dirs["a"] = set(model_retained(dirs["a"], m))
                dirs["b"] = new_saved
                active = "b"
            else:
                if step is not None and step < max(stepsA):
                    f9_region = True  # continuing in the same directory from an older step
                dirs["a"] = set(model_retained(dirs["a"], m)) | new_saved
            for k, v in r2["snapshots"].items():
                snaps[k] = v  # the continued trajectory (same states when the step is revisited)
            last_end = ends2[-1]
        # ---- compare directories with the model
        for name, d in (("a", dirA), ("b", dirB)):
            if name not in dirs:
                if name == "b" and d.exists() and ckpt.steps_in(d)[0]:
                    return verdict_fail("unexpected-directory-written", f"{d} holds {ckpt.steps_in(d)[0]}", classes=classes)
                continue
            steps, tmp = ckpt.steps_in(d)
            if tmp:
                return verdict_fail("temporary-directory-left", f"{name}: {tmp} after wait_until_finished", classes=classes)
            expect = model_retained(dirs[name], m)
            if steps != expect:
                known = F9 if (f9_region and name == "a") else None
                why = ("multiple of f or last iteration of a call" if set(steps) <= dirs[name] else "holds a step that is neither a multiple of f nor the end of a call")
                return verdict_fail("retained-set-differs-from-model" + (":last-iteration-missing" if name == active and last_end not in steps else ""),
                                    f"{kind}/{problem['kind']} f={f} m={m} calls={calls} restore={rs}: directory {name} holds {steps}, "
                                    f"model (m most recent of saved {sorted(dirs[name])}) = {expect}; {why}", classes=classes, known=known)
            has_cfg = (d / "config.yaml").exists()
            if has_cfg != (problem["kind"] != "tabular"):
                return verdict_fail("config-file-presence", f"{name}: config.yaml present={has_cfg}, problem kind {problem['kind']}", classes=classes)
        # ---- content of every retained step
        d = dirA if active == "a" else dirB
        steps, _ = ckpt.steps_in(d)
        rep, rc, err = workers.run_oneshot("ckpt_read_all", problem=problem, solver=ckpt.with_ckpt(sdesc, None, 0, 1, True), dir=str(d), steps=steps)
        if rep is None or not rep["ok"]:
            raise HarnessError(f"read_all worker failed: {rep} {err[-800:]}")
        W = None
        if problem["kind"] == "tabular" and kind == "vi" and sdesc["params"].get("jax_double_precision", True):
            # (with jax_double_precision=False gamma is float32 by request: the iterates legitimately differ from float64 numpy)
            W = ref_mdp.vi_iterates(problem["spec"], float(sdesc["params"]["gamma"]), max(steps))
        for s_ in steps:
            got = rep["result"][str(s_)]
            if "error" in got:
                return verdict_fail("retained-step-unreadable:" + got["bucket"], f"step {s_}: {got['error']}", classes=classes)
            snap = snaps.get(str(s_))
            if snap is None:
                return verdict_fail("retained-step-never-saved", f"step {s_} on disk, saves were {sorted(snaps)}", classes=classes)
            if got["iteration"] != s_:
                return verdict_fail("step-labelled-with-wrong-iteration", f"directory {s_} holds iteration {got['iteration']}", classes=classes)
            bad = ckpt.state_equal(got, snap, fields=("iteration", "values", "gain", "history", "history_index", "period"))
            if bad:
                known = F9 if f9_region else None
                return verdict_fail(f"retained-step-content-differs:{bad}", f"step {s_}: field {bad} differs from the state held at save time "
                                    f"(restore={rs})", classes=classes, known=known)
            if W is not None:
                dv = float(np.max(np.abs(np.asarray(got["values"]) - W[s_])))
                if dv > 1e-9 * (1 + float(np.max(np.abs(W[s_])))):
                    return verdict_fail("retained-step-not-the-iterate-of-its-label", f"step {s_}: differs from the numpy iterate W_{s_} by {dv:.3g}", classes=classes)
        n_saved_total = sum(len(v) for v in dirs.values())
        discarded = any(len(v) > m for v in dirs.values())
        if discarded:
            classes.append("retention-discarded-a-step")
        sample = dict(kind=kind, problem=problem["kind"], f=f, m=m, calls=calls, restore=rs, retained={k: model_retained(v, m) for k, v in dirs.items()})
        return verdict_ok(nontrivial=bool(n_saved_total >= 2 and (discarded or rs)), classes=classes, sample=sample)
    finally:
        ckpt.cleanup(base)
