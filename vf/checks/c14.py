"""C14 — shipped problems are closed and their state index is consistent."""

from __future__ import annotations

import numpy as np

from vf import ref_problems as rp
from vf import shipped
from vf.runner import sut_bucket, verdict_fail, verdict_ok

ID = "C14"
LEVEL = "exploration"
RULE = (
    "Same parameter generator as C13. For each parameterisation: state_to_index(state_space[i]) == i for every i; the "
    "state, action and event spaces have the documented sizes and no duplicate rows; and over the full vmapped "
    "transition table every (state, action, event) with positive probability yields a successor s' with "
    "state_space[state_to_index(s')] == s' (a successor outside the box would be clipped onto a different vector and "
    "fail this). Non-trivial = parameterisation with at least one positive-probability transition whose successor "
    "has a coordinate at its upper bound; distinct = distinct parameter set. A quarter of the cases are LARGE parameterisations "
    "(e.g. Mirjalili order limit up to 70 at useful life 2, Forest up to 3000 states) judged on sizes, duplicates, non-negativity "
    "and the index of every listed state only (no transition table)."
)
ASSUMPTIONS = ["documented sizes are computed from the class docstrings (vf.ref_problems.sizes)"]


def plan(tier):
    if tier == "quick":
        return dict(shards=16, examples=160, time_budget_s=600, min_nontrivial=40, shrink_cap_s=120)
    return dict(shards=16, examples=2400, time_budget_s=3400, min_nontrivial=240)


def strategy(tier, shard):
    from hypothesis import strategies as st

    base = shipped.case_strategy(cap=300_000 if tier == "quick" else 2_000_000)

    @st.composite
    def big(draw):
        """Large parameterisations judged on sizes / duplicates / index of listed states only (no transition table)."""
        kind = draw(st.sampled_from(["mirjalili", "hendrix", "de_moor", "forest"]))
        if kind == "mirjalili":
            m = draw(st.sampled_from([1, 2, 2, 3]))
            q = draw(st.integers(6, {1: 200, 2: 70, 3: 24}[m]))
            params = dict(max_demand=draw(st.integers(1, 30)), max_useful_life=m, max_order_quantity=q,
                          useful_life_at_arrival_distribution_c_0=[0.3] * (m - 1), useful_life_at_arrival_distribution_c_1=[0.1] * (m - 1))
        elif kind == "hendrix":
            m = draw(st.integers(1, 2))
            params = dict(max_useful_life=m, max_order_quantity_a=draw(st.integers(1, 14 if m == 1 else 9)),
                          max_order_quantity_b=draw(st.integers(1, 14 if m == 1 else 9)), demand_poisson_mean_a=2.0, demand_poisson_mean_b=3.0)
        elif kind == "de_moor":
            m, L = draw(st.integers(1, 3)), draw(st.integers(1, 3))
            params = dict(max_useful_life=m, lead_time=L, max_order_quantity=draw(st.integers(1, {2: 40, 3: 25, 4: 12, 5: 8}.get(m + L - 1, 200))),
                          max_demand=draw(st.integers(1, 150)))
        else:
            params = dict(S=draw(st.integers(41, 3000)))
        return dict(kind=kind, params=params, sizes_only=True)

    return st.one_of(base, base, base, big())


def judge(case):
    import vf.sut  # noqa: F401

    kind, params = case["kind"], case["params"]
    classes = shipped.param_classes(kind, params)
    if case.get("sizes_only"):
        import jax
        import numpy as np_

        classes.append("sizes-only-large")
        try:
            problem = shipped.build_sut(kind, params)
            S, A, E = np_.asarray(problem.state_space), np_.asarray(problem.action_space), np_.asarray(problem.random_event_space)
            self_idx = np_.asarray(jax.jit(jax.vmap(problem.state_to_index))(problem.state_space))
        except Exception as e:
            return verdict_fail(sut_bucket(e), f"{kind} {params}: raised {e!r}", classes=classes)
        exp = rp.sizes(kind, params)
        if (len(S), len(A), len(E)) != exp:
            return verdict_fail(f"{kind}:space-size", f"{params}: sizes {(len(S), len(A), len(E))}, documented {exp}", classes=classes)
        for name, X in (("state", S), ("action", A), ("event", E)):
            if len(np_.unique(X, axis=0)) != len(X):
                return verdict_fail(f"{kind}:duplicate-{name}-rows", f"{params}", classes=classes)
            if X.min() < 0:
                return verdict_fail(f"{kind}:negative-{name}-component", f"{params}: min {X.min()}", classes=classes)
        if not np_.array_equal(self_idx, np_.arange(len(S))):
            i = int(np_.argmax(self_idx != np_.arange(len(S))))
            return verdict_fail(f"{kind}:index-of-listed-state", f"{params}: state_to_index({S[i].tolist()}) = {int(self_idx[i])}, row {i}", classes=classes)
        return verdict_ok(nontrivial=True, classes=classes, sample=dict(kind=kind, params=params, S=exp[0], A=exp[1], E=exp[2], sizes_only=True))
    try:
        problem = shipped.build_sut(kind, params)
        t = shipped.sut_tables(problem, want=("next", "prob", "index"))
    except Exception as e:
        return verdict_fail(sut_bucket(e), f"{kind} {params}: raised {e!r}", classes=classes)
    S, A, E = t["S"], t["A"], t["E"]
    exp = rp.sizes(kind, params)
    got = (len(S), len(A), len(E))
    if got != exp or (problem.n_states, problem.n_actions, problem.n_random_events) != exp:
        return verdict_fail(f"{kind}:space-size", f"{params}: sizes {got}, documented {exp}", classes=classes)
    for name, X in (("state", S), ("action", A), ("event", E)):
        if len(np.unique(X, axis=0)) != len(X):
            return verdict_fail(f"{kind}:duplicate-{name}-rows", f"{params}", classes=classes)
    if not np.array_equal(t["self_index"], np.arange(len(S))):
        i = int(np.argmax(t["self_index"] != np.arange(len(S))))
        return verdict_fail(f"{kind}:index-of-listed-state", f"{params}: state_to_index({S[i].tolist()}) = {int(t['self_index'][i])}, row {i}",
                            classes=classes)
    pos = t["prob"] > 0
    nxt, idx = t["next"], t["next_index"]
    if nxt.shape[-1] != S.shape[1]:
        return verdict_fail(f"{kind}:successor-dimension", f"{nxt.shape} vs state dim {S.shape[1]}", classes=classes)
    if idx.min() < 0 or idx.max() >= len(S):
        return verdict_fail(f"{kind}:successor-index-out-of-range", f"{params}: index range {idx.min()}..{idx.max()}", classes=classes)
    back = S[idx]  # [S,A,E,dim]
    bad = np.any(back != nxt, axis=-1) & pos
    if bad.any():
        i = np.argwhere(bad)[0]
        return verdict_fail(f"{kind}:successor-not-a-listed-state",
                            f"{params}: state {S[i[0]].tolist()} action {A[i[1]].tolist()} event {E[i[2]].tolist()} "
                            f"(probability {t['prob'][tuple(i)]:.4g}) -> successor {nxt[tuple(i)].tolist()}, but its index "
                            f"{int(idx[tuple(i)])} is the row of {back[tuple(i)].tolist()}", classes=classes)
    at_edge = bool(np.any(np.any(nxt == S.max(axis=0), axis=-1) & pos))
    sample = dict(kind=kind, params=params, S=got[0], A=got[1], E=got[2], positive_triples=int(pos.sum()))
    return verdict_ok(nontrivial=at_edge, classes=classes + (["edge-transition"] if at_edge else []), sample=sample)
