"""C20 — configuration contract: valid parameters work by every route, invalid ones are rejected."""

from __future__ import annotations

import dataclasses
import os
import shutil
import tempfile

import numpy as np

from vf import ref_problems as rp
from vf import workers
from vf.runner import HarnessError, sut_bucket, verdict_fail, verdict_ok
from vf.tabular import SOLVERS

ID = "C20"
LEVEL = "exploration"
RULE = (
    "Hypothesis generates a solver class (all five), a small shipped problem parameterisation, and solver parameters "
    "drawn ON and AROUND every documented boundary (gamma 0, 1e-9, 1-1e-9, 1; epsilon 1e-12..1e6 so thresholds cross 1, "
    "10, 100; batch size, period, evaluation budget, frequency, retention, verbosity 0..4), optionally with ONE field "
    "replaced by a value outside its documented domain (gamma outside [0,1] or != 1 for relative VI, epsilon <= 0, "
    "batch size / period / budget <= 0, negative frequency or retention, verbosity -1 or 5, unknown test or issuing "
    "policy, each problem field beyond its bound). Valid sets: the solver is built by three routes (problem instance "
    "+ keyword arguments; configuration object alone; OmegaConf.save -> load -> hydra instantiate); the three "
    "configurations must be field-wise equal, and solve(25) must complete on every route and return the same "
    "iteration and values, float64, of length n_states. Invalid sets: construction must raise ValueError or TypeError "
    "on the keyword route and the configuration route. A third of the valid cases are also run in two fresh "
    "processes (README order without 64-bit mode enabled beforehand vs 64-bit mode first): both must return float64 "
    "and agree within 1e-9 relative. Non-trivial = valid case with a boundary value or an invalid case; distinct = "
    "case digest. In addition every listed out-of-domain (field, value) pair of every problem and solver "
    "configuration is enumerated completely (rejection must come before anything is compiled)."
)
ASSUMPTIONS = [
    "NaN is not generated (the documented domains say nothing about it)",
    "checkpoint_frequency > 0 cases write to a temporary directory that is removed afterwards",
]

F7 = "F7-float32-problem-tables-when-problem-created-before-x64"


def plan(tier):
    if tier == "quick":
        return dict(shards=16, examples=192, time_budget_s=700, min_nontrivial=30, shrink_cap_s=90)
    return dict(shards=16, examples=4800, time_budget_s=3400, min_nontrivial=360)


SMALL_PROBLEMS = [
    ("forest", dict(S=3, r1=4.0, r2=2.0, p=0.1)),
    ("forest", dict(S=5, r1=10.0, r2=1.0, p=0.5)),
    ("forest", dict(S=1, r1=4.0, r2=2.0, p=0.0)),
    ("de_moor", dict(max_demand=4, demand_gamma_mean=1.5, demand_gamma_cov=0.5, max_useful_life=2, lead_time=1,
                     max_order_quantity=2, issue_policy="fifo")),
    ("hendrix", dict(max_useful_life=1, demand_poisson_mean_a=1.0, demand_poisson_mean_b=0.7, substitution_probability=0.5,
                     max_order_quantity_a=2, max_order_quantity_b=1)),
    ("mirjalili", dict(max_demand=3, max_useful_life=2, useful_life_at_arrival_distribution_c_0=[0.5],
                       useful_life_at_arrival_distribution_c_1=[-0.2], max_order_quantity=2)),
]

INVALID_PROBLEM = {
    "forest": [("S", 0), ("S", -2), ("p", -0.1), ("p", 1.0001)],
    "de_moor": [("max_demand", 0), ("max_demand", -3), ("demand_gamma_mean", 0.0), ("demand_gamma_mean", -2.0), ("demand_gamma_cov", 0.0), ("demand_gamma_cov", -1.0),
                ("max_useful_life", -1), ("lead_time", -1), ("max_order_quantity", -2),
                ("max_useful_life", 0), ("lead_time", 0), ("max_order_quantity", 0), ("issue_policy", "xifo"),
                ("issue_policy", "FIFO")],
    "hendrix": [("max_useful_life", 0), ("demand_poisson_mean_a", 0.0), ("demand_poisson_mean_a", -1.0), ("demand_poisson_mean_b", -1.0),
                ("demand_poisson_mean_b", 0.0), ("max_order_quantity_a", -1), ("max_order_quantity_b", 0),
                ("substitution_probability", -0.01), ("substitution_probability", 1.5), ("max_order_quantity_a", 0),
                ("max_order_quantity_b", -1)],
    "mirjalili": [("max_demand", 0), ("max_demand", -1), ("max_useful_life", 0), ("max_order_quantity", 0), ("max_order_quantity", -4),
                  ("weekday_demand_negbin_n", [0.0] + [1.0] * 6), ("weekday_demand_negbin_delta", [0.0] + [1.0] * 6),
                  ("weekday_demand_negbin_n", [1.0] * 6), ("weekday_demand_negbin_n", [1.0] * 6 + [0.0]),
                  ("weekday_demand_negbin_delta", [1.0] * 6 + [-2.0]), ("weekday_demand_negbin_delta", [1.0] * 8),
                  ("useful_life_at_arrival_distribution_c_0", [0.1, 0.2, 0.3]), ("useful_life_at_arrival_distribution_c_1", [])],
}


def strategy(tier, shard):
    from hypothesis import strategies as st

    @st.composite
    def cases(draw):
        skind = draw(st.sampled_from(list(SOLVERS)))
        pi = draw(st.integers(0, len(SMALL_PROBLEMS) - 1))
        pkind, pparams = SMALL_PROBLEMS[pi]
        pparams = dict(pparams)
        gam = draw(st.sampled_from([0.0, 1e-9, 0.3, 0.9, 0.99, 1 - 1e-9, 1.0]))
        sp = dict(
            epsilon=draw(st.sampled_from([1e-12, 1e-9, 1e-6, 1e-3, 0.09, 0.5, 1.0, 9.0, 10.0, 99.0, 100.0, 1e3, 1e6, 1, 10, 100])),
            max_batch_size=draw(st.sampled_from([1, 2, 7, 64, 1024, 10**6])),
            verbose=draw(st.sampled_from([0, 0, 0, 1, 2, 3, 4])),
            jax_double_precision=True,
            checkpoint_frequency=draw(st.sampled_from([0, 0, 0, 1, 7])),
            max_checkpoints=draw(st.sampled_from([1, 1, 3, 0])),
            enable_async_checkpointing=draw(st.booleans()),
        )
        if skind == "rvi":
            if draw(st.booleans()):
                sp["gamma"] = 1.0
        else:
            sp["gamma"] = gam
        if skind in ("vi", "pi", "sa"):
            sp["convergence_test"] = draw(st.sampled_from(["span", "max_diff"]))
        if skind == "pvi":
            sp["period"] = draw(st.integers(2 if gam == 1.0 else 1, 4))
            sp["clear_value_history_on_convergence"] = draw(st.booleans())
        if skind == "pi":
            sp["max_eval_iter"] = draw(st.sampled_from([1, 2, 50, 100]))
            sp["reset_values_for_each_policy_eval"] = draw(st.booleans())
        if skind == "sa":
            sp["shuffle_states"] = draw(st.booleans())
            sp["random_seed"] = draw(st.integers(0, 1000))
        if sp["max_checkpoints"] == 0:
            sp["checkpoint_frequency"] = 0
        invalid = None
        r = draw(st.integers(0, 5))
        if r == 0:
            opts = [("gamma", -1e-9), ("gamma", 1 + 1e-9), ("gamma", -1.0), ("gamma", 2.0), ("epsilon", 0.0), ("epsilon", -1e-3),
                    ("max_batch_size", 0), ("max_batch_size", -1), ("checkpoint_frequency", -1), ("max_checkpoints", -1),
                    ("verbose", -1), ("verbose", 5)]
            if skind == "rvi":
                opts = [o for o in opts if o[0] != "gamma"] + [("gamma", 0.99), ("gamma", 0.0), ("gamma", 1.0001)]
            if skind in ("vi", "pi", "sa"):
                opts += [("convergence_test", "foo"), ("convergence_test", "SPAN"), ("convergence_test", "")]
            if skind == "pvi":
                opts += [("period", 0), ("period", -1)]
                if draw(st.booleans()):
                    sp["gamma"] = 1.0
                    opts = [("period", 1)]
            if skind == "pi":
                opts += [("max_eval_iter", 0), ("max_eval_iter", -5)]
            f, v = draw(st.sampled_from(opts))
            sp[f] = v
            invalid = dict(where="solver", field=f, value=v)
        elif r == 1:
            f, v = draw(st.sampled_from(INVALID_PROBLEM[pkind]))
            pparams[f] = v
            invalid = dict(where="problem", field=f, value=v)
        return dict(skind=skind, pkind=pkind, pparams=pparams, sparams=sp, invalid=invalid,
                    precision=(invalid is None and draw(st.integers(0, 4)) == 0),
                    # another solver with jax_double_precision=False is built in between (must not change this solver's precision)
                    interloper=(invalid is None and draw(st.integers(0, 3)) == 0))

    return cases()


def _norm(x):
    from omegaconf import DictConfig, ListConfig, OmegaConf

    if isinstance(x, (DictConfig, ListConfig)):
        x = OmegaConf.to_container(x, resolve=True)
    if dataclasses.is_dataclass(x) and not isinstance(x, type):
        d = {f.name: _norm(getattr(x, f.name)) for f in dataclasses.fields(x)}
        return d
    if isinstance(x, dict):
        return {str(k): _norm(v) for k, v in x.items()}
    if isinstance(x, (list, tuple)):
        return [_norm(v) for v in x]
    if isinstance(x, bool) or x is None or isinstance(x, str):
        return x
    if isinstance(x, (int, float, np.integer, np.floating)):
        return float(x)
    return str(x)


def _classes(case):
    sp = case["sparams"]
    cl = [f"solver-{case['skind']}", f"problem-{case['pkind']}"]
    g = sp.get("gamma")
    if g in (0.0, 1.0):
        cl.append(f"gamma={g:g}")
    if g in (1e-9, 1 - 1e-9):
        cl.append("gamma-next-to-boundary")
    if sp.get("epsilon", 1) >= 100 or sp.get("epsilon", 1) <= 1e-9:
        cl.append("epsilon-extreme")
    if sp.get("checkpoint_frequency", 0) > 0:
        cl.append("checkpointing-on")
    return cl


def judge(case):
    import importlib

    import vf.sut  # noqa: F401 (64-bit mode first, in this process)
    from hydra.utils import instantiate
    from omegaconf import OmegaConf

    skind, pkind = case["skind"], case["pkind"]
    pparams = {k: (tuple(v) if isinstance(v, list) else v) for k, v in case["pparams"].items()}
    sparams = dict(case["sparams"])
    invalid = case.get("invalid")
    classes = _classes(case)
    smod, sname = SOLVERS[skind]
    scls = getattr(importlib.import_module(smod), sname)
    pmod, pname = rp.SUT[pkind]
    pcls = getattr(importlib.import_module(pmod), pname)
    tmp = None
    if sparams.get("checkpoint_frequency", 0) > 0:
        tmp = tempfile.mkdtemp(prefix="vf-c20-")
    try:
        def with_dir(d, sub):
            d = dict(d)
            if tmp:
                d["checkpoint_dir"] = os.path.join(tmp, sub)
            return d

        if invalid:
            classes.append(f"invalid-{invalid['where']}-{invalid['field']}")
            outcomes = {}
            # route 1: problem instance + keyword arguments
            try:
                problem = pcls(**pparams)
                scls(problem=problem, **with_dir(sparams, "a"))
                outcomes["kwargs"] = "accepted"
            except (ValueError, TypeError):
                outcomes["kwargs"] = "rejected"
            except Exception as e:
                return verdict_fail(f"invalid-{invalid['where']}-{invalid['field']}:wrong-exception:{type(e).__name__}",
                                    f"{skind}/{pkind} {invalid}: raised {e!r} instead of ValueError/TypeError", classes=classes)
            # route 2: configuration objects
            try:
                pconf = pcls.Config(**pparams)
                sconf = scls.Config(problem=pconf, **with_dir(sparams, "b"))
                scls(config=sconf)
                outcomes["config"] = "accepted"
            except (ValueError, TypeError):
                outcomes["config"] = "rejected"
            except Exception as e:
                return verdict_fail(f"invalid-{invalid['where']}-{invalid['field']}:wrong-exception:{type(e).__name__}",
                                    f"{skind}/{pkind} {invalid} (config route): raised {e!r}", classes=classes)
            if "accepted" in outcomes.values():
                return verdict_fail(f"invalid-accepted:{invalid['where']}.{invalid['field']}",
                                    f"{skind}/{pkind}: {invalid['field']}={invalid['value']!r} is outside the documented domain but "
                                    f"construction succeeded ({outcomes})", classes=classes)
            return verdict_ok(nontrivial=True, classes=classes, sample=dict(skind=skind, pkind=pkind, invalid=invalid))
        # ---- valid set: three routes
        solvers = {}
        try:
            problem = pcls(**pparams)
            solvers["kwargs"] = scls(problem=problem, **with_dir(sparams, "a"))
        except Exception as e:
            return verdict_fail("valid-rejected:kwargs:" + sut_bucket(e), f"{skind}/{pkind} {sparams}: {e!r}", classes=classes)
        try:
            sconf = scls.Config(problem=pcls.Config(**pparams), **with_dir(sparams, "b"))
            solvers["config"] = scls(config=sconf)
        except Exception as e:
            return verdict_fail("valid-rejected:config-route:" + sut_bucket(e), f"{skind}/{pkind} {sparams}: {e!r}", classes=classes)
        try:
            d = tmp or tempfile.mkdtemp(prefix="vf-c20-")
            if tmp is None:
                tmp = d
            path = os.path.join(d, "saved.yaml")
            c3 = scls.Config(problem=pcls.Config(**pparams), **with_dir(sparams, "c"))
            OmegaConf.save(c3, path)
            solvers["file"] = instantiate(OmegaConf.load(path))
        except Exception as e:
            return verdict_fail("valid-rejected:saved-file-route:" + sut_bucket(e), f"{skind}/{pkind} {sparams}: {e!r}", classes=classes)
        if type(solvers["file"]) is not scls:
            return verdict_fail("saved-file-route-wrong-class", f"{type(solvers['file'])}", classes=classes)
        norms = {}
        for r, s in solvers.items():
            n = _norm(s.config)
            n.pop("checkpoint_dir", None)
            norms[r] = n
        for r in ("config", "file"):
            if norms[r] != norms["kwargs"]:
                diff = {k: (norms["kwargs"].get(k), norms[r].get(k)) for k in set(norms["kwargs"]) | set(norms[r])
                        if norms["kwargs"].get(k) != norms[r].get(k)}
                return verdict_fail(f"routes-differ:config:{r}", f"{skind}/{pkind}: fields differ (kwargs, {r}): {diff}", classes=classes)
        if case.get("interloper"):
            classes.append("single-precision-solver-built-in-between")
            try:
                scls(problem=pcls(**pparams), **dict(with_dir({k: v for k, v in sparams.items() if k != "checkpoint_frequency"}, "x"),
                                                   jax_double_precision=False, checkpoint_frequency=0))
            except Exception as e:
                return verdict_fail("valid-rejected:single-precision:" + sut_bucket(e), f"{skind}/{pkind}: {e!r}", classes=classes)
        results = {}
        for r, s in solvers.items():
            try:
                st = s.solve(25)
                if getattr(s, "checkpoint_manager", None) is not None:
                    s.checkpoint_manager.wait_until_finished()
            except Exception as e:
                return verdict_fail(f"solve-raised:{sut_bucket(e)}", f"{skind}/{pkind} route {r} {sparams}: {e!r}", classes=classes)
            v = st.values
            n_states = s.problem.n_states
            if tuple(v.shape) != (n_states,) or st.policy is None or st.policy.shape[0] != n_states:
                return verdict_fail("result-shape", f"route {r}: values {v.shape} policy {None if st.policy is None else st.policy.shape}",
                                    classes=classes)
            if str(v.dtype) != "float64":
                return verdict_fail("values-not-float64", f"route {r}: dtype {v.dtype}", classes=classes)
            results[r] = (int(st.info.iteration), np.asarray(v, dtype=np.float64))
        for r in ("config", "file"):
            a, b = results["kwargs"], results[r]
            if a[0] != b[0] or not np.allclose(a[1], b[1], rtol=1e-12, atol=1e-12, equal_nan=True):
                return verdict_fail(f"routes-differ:behaviour:{r}", f"{skind}/{pkind}: kwargs -> iteration {a[0]}, {r} -> {b[0]}; "
                                    f"max value difference {np.nanmax(np.abs(a[1] - b[1]))}", classes=classes)
        if case.get("precision"):
            classes.append("precision-two-processes")
            sp2 = {k: v for k, v in sparams.items() if k not in ("checkpoint_frequency",)}
            sp2["checkpoint_frequency"] = 0
            sp2["verbose"] = 0
            reps = {}
            for order in ("readme", "x64first"):
                rep, rc, err = workers.run_oneshot("c20_precision", devices=1, timeout=600, order=order, pkind=pkind,
                                                   pparams=case["pparams"], skind=skind, sparams=sp2, iters=25)
                if rep is None:
                    raise HarnessError(f"precision worker produced no reply (rc={rc}): {err}")
                if not rep["ok"]:
                    return verdict_fail(f"precision:{order}:{rep['bucket']}", f"{skind}/{pkind} {order}: {rep['error']}", classes=classes)
                reps[order] = rep["result"]
            for order, r in reps.items():
                if r["dtype"] != "float64":
                    return verdict_fail(f"precision:values-not-float64:{order}",
                                        f"{skind}/{pkind} order={order}: values dtype {r['dtype']} although double precision was requested",
                                        classes=classes)
            a, b = np.asarray(reps["readme"]["values"]), np.asarray(reps["x64first"]["values"])
            finite = np.isfinite(a) & np.isfinite(b)
            rel = float(np.max(np.abs(a[finite] - b[finite]) / (1e-300 + np.maximum(1.0, np.abs(b[finite]))))) if finite.any() else 0.0
            if rel > 1e-9 or reps["readme"]["iteration"] != reps["x64first"]["iteration"]:
                # root cause of known finding F7: the problem object built before 64-bit mode holds float32 arrays (and the one
                # built after holds none); how far the results drift apart depends on the configuration (stopping on an exact
                # zero span at gamma = 1 - 1e-9 amplifies it to different iteration counts)
                f7 = bool(reps["readme"].get("problem_float32_arrays")) and not reps["x64first"].get("problem_float32_arrays")
                known = F7 if f7 else None
                return verdict_fail("precision:construction-order-changes-values",
                                    f"{skind}/{pkind}: README order vs 64-bit-first differ by {rel:.3g} relative "
                                    f"(iterations {reps['readme']['iteration']} / {reps['x64first']['iteration']}); float32 arrays held by the "
                                    f"problem in README order: {reps['readme'].get('problem_float32_arrays')}", classes=classes, known=known)
        nontrivial = any(c.startswith("gamma") or c.startswith("epsilon") for c in classes) or case.get("precision")
        sample = dict(skind=skind, pkind=pkind, sparams=sparams, iteration=results["kwargs"][0])
        return verdict_ok(nontrivial=bool(nontrivial), classes=classes, sample=sample)
    finally:
        # close Orbax managers (each owns background threads; hundreds of them per process end in a crash)
        for s_ in list(locals().get("solvers", {}).values()):
            m_ = getattr(s_, "checkpoint_manager", None)
            if m_ is not None:
                try:
                    m_.wait_until_finished()
                    m_.close()
                except Exception:
                    pass
        if tmp:
            shutil.rmtree(tmp, ignore_errors=True)


def enumerate_run(tier, shard, nshards):
    """Every listed out-of-domain value of every problem field and every solver field, for every solver class
    (complete enumeration of the invalid-value tables; cheap because rejection happens before anything is compiled)."""
    from collections import Counter

    base_sp = dict(epsilon=1e-3, max_batch_size=64, verbose=0, jax_double_precision=True, checkpoint_frequency=0, max_checkpoints=1,
                   enable_async_checkpointing=True)
    cases = []
    first = {}
    for pk, pp in SMALL_PROBLEMS:
        first.setdefault(pk, pp)
    for pk, lst in INVALID_PROBLEM.items():
        for f, v in lst:
            for sk in ("vi", "pi"):
                pp = dict(first[pk])
                pp[f] = v
                cases.append(dict(skind=sk, pkind=pk, pparams=pp, sparams=_valid_sp(sk, base_sp), invalid=dict(where="problem", field=f, value=v), precision=False))
    solver_invalid = [("gamma", -1e-9), ("gamma", 1 + 1e-9), ("epsilon", 0.0), ("epsilon", -1e-3), ("max_batch_size", 0), ("max_batch_size", -1),
                      ("checkpoint_frequency", -1), ("max_checkpoints", -1), ("verbose", -1), ("verbose", 5)]
    for sk in SOLVERS:
        opts = list(solver_invalid)
        if sk == "rvi":
            opts = [o for o in opts if o[0] != "gamma"] + [("gamma", 0.99), ("gamma", 0.0), ("gamma", 1.0001)]
        if sk in ("vi", "pi", "sa"):
            opts += [("convergence_test", "foo"), ("convergence_test", "SPAN")]
        if sk == "pvi":
            opts += [("period", 0), ("period", -1)]
        if sk == "pi":
            opts += [("max_eval_iter", 0), ("max_eval_iter", -5)]
        for f, v in opts:
            sp = _valid_sp(sk, base_sp)
            sp[f] = v
            cases.append(dict(skind=sk, pkind="forest", pparams=dict(first["forest"]), sparams=sp, invalid=dict(where="solver", field=f, value=v), precision=False))
        if sk == "pvi":
            sp = _valid_sp(sk, base_sp)
            sp.update(gamma=1.0, period=1)
            cases.append(dict(skind=sk, pkind="forest", pparams=dict(first["forest"]), sparams=sp, invalid=dict(where="solver", field="period", value=1), precision=False))
    for sk in SOLVERS:  # integer-valued epsilon is a valid positive epsilon for every solver class
        for e_int in (1, 100):
            sp = _valid_sp(sk, base_sp)
            sp["epsilon"] = e_int
            cases.append(dict(skind=sk, pkind="forest", pparams=dict(first["forest"]), sparams=sp, invalid=None, precision=False))
    n_eval = n_nt = 0
    classes = Counter()
    failures, samples, seen = [], [], set()
    for i, c in enumerate(cases):
        if i % nshards != shard:
            continue
        v = judge(c)
        n_eval += 1
        classes["enumerated-invalid-" + c["invalid"]["where"] if c["invalid"] else "enumerated-int-epsilon"] += 1
        if v["ok"]:
            n_nt += 1
            if len(samples) < 2:
                samples.append(dict(skind=c["skind"], pkind=c["pkind"], invalid=c["invalid"], epsilon=c["sparams"].get("epsilon")))
        elif v["bucket"] not in seen:
            seen.add(v["bucket"])
            failures.append(dict(case=c, verdict=v))
    return dict(evaluations=n_eval, distinct_nontrivial=n_nt, classes=dict(classes), samples=samples, failures=failures, exhaustive=True,
                box=f"all {len(cases)} listed out-of-domain (field, value) pairs of problem and solver configurations")


def _valid_sp(sk, base):
    sp = dict(base)
    if sk != "rvi":
        sp["gamma"] = 0.9
    if sk in ("vi", "pi", "sa"):
        sp["convergence_test"] = "span"
    if sk == "pvi":
        sp["period"] = 2
    if sk == "pi":
        sp["max_eval_iter"] = 50
    return sp
