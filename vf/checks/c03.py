"""C03 — results are independent of batch size, device count and padding."""

from __future__ import annotations

import numpy as np

from vf import ref_mdp, workers
from vf.checks.c08 import _Model
from vf.gen_mdp import mdp_specs, spec_classes
from vf.runner import HarnessError, verdict_fail, verdict_ok

ID = "C03"
LEVEL = "exploration"
RULE = (
    "Hypothesis generates a tabular MDP with 1..200 states (primes, fewer states than devices, exact multiples of "
    "devices x batch size, both kinds of padding-vector encodings), a solver (VI, PI, relative VI, periodic VI, "
    "semi-async) with generated gamma / epsilon / test / period, 2-3 max_batch_size values in 1..nS+3 and a sweep count "
    "k. The same case is executed by persistent worker processes running under 1, 2, 3, 4 and 8 emulated devices "
    "(device count is fixed at process start), each under every batch size: solve(k), then solve to convergence. "
    "Oracle: every layout must agree with the numpy reference (plain VI iterates; relative VI modulo a constant) on "
    "the values after k sweeps, the iteration at which convergence is declared (borderline sweeps excepted), gain and "
    "value history, and with every other layout (differential) on final values; returned arrays have length nS in "
    "natural order; the exactly evaluated value (gain for relative VI) of every returned policy agrees. PI is judged "
    "differentially and by the exact value of its policy. Semi-async: every partition's converged solution must lie "
    "within epsilon of V* (max_diff). Non-trivial = at least two distinct layouts compared, one with padding and one "
    "with several batches per device; distinct = case digest."
)
ASSUMPTIONS = [
    "emulated host devices (XLA_FLAGS=--xla_force_host_platform_device_count) stand in for real accelerators",
    "tolerance 1e-9*(1+scale); policies may differ on exact ties, so policy VALUES are compared",
]

DEVICES = (1, 2, 3, 4, 8)
MAXIT = 1500


def plan(tier):
    if tier == "quick":
        return dict(shards=3, examples=36, time_budget_s=900, min_nontrivial=5, shrink_cap_s=120)
    return dict(shards=3, examples=540, time_budget_s=3500, min_nontrivial=40)


def teardown_shard():
    workers.close_all()


def strategy(tier, shard):
    from hypothesis import strategies as st

    @st.composite
    def cases(draw):
        kind = draw(st.sampled_from(["vi", "vi", "pi", "rvi", "pvi", "sa"]))
        size = draw(st.sampled_from(["tiny", "small", "small", "mid", "big"]))
        hi = dict(tiny=3, small=12, mid=40, big=200)[size]
        lo = dict(tiny=1, small=2, mid=13, big=64)[size]
        chain = "hub" if kind == "rvi" else None
        spec = draw(mdp_specs(max_states=hi, min_states=lo, max_actions=3, max_events=3, allow_pol0=(kind == "pi"),
                              chain=chain, structure=(size != "big")))
        nS, sc = spec["nS"], spec["scale"]
        cfg = dict(solver=kind)
        if kind == "rvi":
            cfg["gamma"] = 1.0
        else:
            cfg["gamma"] = draw(st.sampled_from([0.5, 0.8, 0.9]))
        cfg["eps"] = float(sc * 10.0 ** draw(st.sampled_from([-4, -2, -1, 0])))
        if kind in ("vi", "pi"):
            cfg["test"] = draw(st.sampled_from(["span", "max_diff"]))
        if kind == "sa":
            cfg["test"] = "max_diff"
            cfg["shuffle"] = False
        if kind == "pvi":
            cfg["period"] = draw(st.integers(1, 3))
            cfg["clear"] = False
        if kind == "pi":
            cfg["max_eval_iter"] = 20000
            cfg["reset"] = draw(st.booleans())
        # batch sizes: arbitrary, plus exact divisors so that devices x batches x batch_size == nS (no padding)
        divisors = [d for d in range(1, nS + 1) if nS % d == 0]
        mbs = {draw(st.integers(1, nS + 3)), draw(st.sampled_from(divisors)), draw(st.sampled_from([1, 2, 64, nS]))}
        return dict(spec=spec, cfg=cfg, mbs_list=sorted(mbs)[:3], k=draw(st.integers(1, 6)))

    return cases()


def judge(case):
    spec, cfg, mbs_list, k = case["spec"], case["cfg"], case["mbs_list"], int(case["k"])
    kind = cfg["solver"]
    nS = spec["nS"]
    classes = spec_classes(spec) + [f"solver-{kind}", "nS<=3" if nS <= 3 else ("nS>=64" if nS >= 64 else "nS-mid")]
    gamma = float(cfg["gamma"])
    nxt, rew, prb = ref_mdp.arrays(spec)
    rmax = float(np.max(np.abs(rew)))
    runs = []
    for D in DEVICES:
        w = workers.get(D)
        try:
            rep = w.call("c03", spec=spec, cfg=cfg, mbs_list=mbs_list, k=k, maxit=MAXIT)
        except workers.WorkerDied as e:
            raise HarnessError(str(e))
        if not rep["ok"]:
            return verdict_fail(rep["bucket"], f"{D} devices: {rep['error']}", classes=classes)
        runs.extend(rep["result"])
    for r in runs:
        if "error" in r:
            return verdict_fail(r["bucket"], f"{r['devices']} devices, max_batch_size {r['mbs']}: {r['error']}", classes=classes)
    # reference
    model = _Model(spec, cfg) if kind != "pi" and kind != "sa" else None
    ref_k = ref_final = None
    n_conv = None
    borderline = False
    if model is not None:
        for n in range(1, MAXIT + k + 1):
            m = model.sweep()
            sc_now = 1 + rmax + float(np.max(np.abs(model.V)))
            btol = 1e-9 * sc_now + (1e-13 * sc_now * int(cfg.get("period", 1)) * gamma ** -n if kind == "pvi" and gamma < 1 else 0)
            if n == k:
                ref_k = model.V.copy()
            if abs(m - model.thr) <= btol:
                borderline = True
                break
            if m < model.thr:
                n_conv = n
                break
        if borderline:
            return verdict_ok(nontrivial=False, classes=classes + ["borderline"])
    P, R = ref_mdp.dense(spec)
    layouts = set()
    padded = multi = nopad_multidev = False
    base = None
    for r in runs:
        lay = tuple(r["final"]["layout"])
        layouts.add(lay)
        padded |= r["final"]["n_pad"] > 0
        multi |= lay[1] > 1
        nopad_multidev |= r["final"]["n_pad"] == 0 and lay[0] > 1
        tag = f"{r['devices']} devices, max_batch_size {r['mbs']}, layout {lay}, padding {r['final']['n_pad']}"
        for phase in ("after_k", "final"):
            v = np.asarray(r[phase]["values"], dtype=np.float64)
            if v.shape != (nS,) or r[phase].get("policy_shape", [nS])[0] != nS:
                return verdict_fail("result-length", f"{tag}: values {v.shape}, policy {r[phase].get('policy_shape')}, nS={nS}", classes=classes)
            if not np.all(np.isfinite(v)):
                return verdict_fail("non-finite-values", tag, classes=classes)
            pidx = r[phase].get("policy_idx")
            if pidx is not None and min(pidx) < 0:
                return verdict_fail("policy-row-not-in-action-space", tag, classes=classes)
        vk = np.asarray(r["after_k"]["values"])
        vf = np.asarray(r["final"]["values"])
        itk, itf = r["after_k"]["iteration"], r["final"]["iteration"]
        if model is not None:
            exp_k_it = min(k, n_conv) if n_conv is not None else k
            if itk != exp_k_it:
                return verdict_fail("iteration-depends-on-layout", f"{tag}: solve({k}) ended at iteration {itk}, reference {exp_k_it}", classes=classes)
            refv = ref_k if (n_conv is None or n_conv >= k) else model.V
            d = vk - refv
            if kind == "rvi":
                d = d - d[-1]
            tol = 1e-9 * (1 + rmax + float(np.max(np.abs(refv)))) * (k if gamma == 1 else 1)
            if np.max(np.abs(d)) > tol:
                s = int(np.argmax(np.abs(d)))
                return verdict_fail("values-depend-on-layout", f"{tag}: after {itk} sweeps state {s} differs from the reference by {d[s]:.6g}", classes=classes)
            if n_conv is not None:
                # the second call continues after a converged first call only if k < n_conv
                exp_final = n_conv if k < n_conv else None
                if exp_final is not None and itf != exp_final:
                    return verdict_fail("convergence-iteration-depends-on-layout", f"{tag}: converged at iteration {itf}, reference {exp_final}", classes=classes)
        if base is None:
            base = (r, tag)
        else:
            b = base[0]
            if kind != "sa":
                if (itk, itf) != (b["after_k"]["iteration"], b["final"]["iteration"]):
                    return verdict_fail("iteration-depends-on-layout", f"{tag}: iterations {(itk, itf)} vs {base[1]}: "
                                        f"{(b['after_k']['iteration'], b['final']['iteration'])}", classes=classes)
                for phase, v in (("after_k", vk), ("final", vf)):
                    bv = np.asarray(b[phase]["values"])
                    tol = 1e-9 * (1 + rmax + float(np.max(np.abs(bv)))) * (max(1, r[phase]["iteration"]) if gamma == 1 else 1)
                    if np.max(np.abs(v - bv)) > tol:
                        return verdict_fail("values-depend-on-layout", f"{phase}: {tag} vs {base[1]}: max difference {np.max(np.abs(v - bv)):.6g}", classes=classes)
                if "gain" in r["final"] and abs(r["final"]["gain"] - b["final"]["gain"]) > 1e-9 * (1 + rmax):
                    return verdict_fail("gain-depends-on-layout", f"{tag}: gain {r['final']['gain']} vs {b['final']['gain']}", classes=classes)
                if r["final"].get("history") is not None and b["final"].get("history") is not None:
                    h, bh = np.asarray(r["final"]["history"]), np.asarray(b["final"]["history"])
                    if h.shape != bh.shape or r["final"]["history_index"] != b["final"]["history_index"] or np.max(np.abs(h - bh)) > 1e-9 * (1 + rmax + np.max(np.abs(bh))):
                        return verdict_fail("history-depends-on-layout", f"{tag} vs {base[1]}", classes=classes)
        # value of the returned policy (exact evaluation)
        pidx = r["final"].get("policy_idx")
        if pidx is not None:
            if kind == "rvi":
                gpi, _ = ref_mdp.stationary_gain(P, R, pidx)
                r["_polval"] = np.array([gpi])
            elif gamma < 1:
                r["_polval"] = ref_mdp.policy_value(P, R, np.asarray(pidx), gamma)
            if "_polval" in r and "_polval" in base[0] and kind != "sa":
                d = float(np.max(np.abs(r["_polval"] - base[0]["_polval"])))
                if d > 1e-7 * (1 + rmax / max(1e-9, 1 - gamma if gamma < 1 else 1)):
                    return verdict_fail("policy-value-depends-on-layout", f"{tag} vs {base[1]}: exact policy values differ by {d:.6g}", classes=classes)
        if kind == "sa" and itf < MAXIT + itk:
            Vstar, _ = ref_mdp.optimal_discounted(P, R, gamma)
            d = float(np.max(np.abs(vf - Vstar)))
            if d > float(cfg["eps"]) * (1 + 1e-9) + 1e-9 * (1 + ref_mdp.value_scale(spec, gamma)):
                return verdict_fail("semi-async-partition-breaks-error-bound", f"{tag}: |values-V*| = {d:.6g} > eps {cfg['eps']}", classes=classes)
    if padded:
        classes.append("some-layout-padded")
    if multi:
        classes.append("some-layout-multi-batch")
    if nopad_multidev:
        classes.append("multi-device-no-padding")
    if nS < 8:
        classes.append("nS<devices")
    classes.append(f"layouts={min(len(layouts), 9)}")
    nontrivial = len(layouts) >= 2 and padded and multi
    sample = dict(nS=nS, nA=spec["nA"], nE=spec["nE"], cfg=cfg, mbs_list=mbs_list, k=k, layouts=sorted(layouts)[:8],
                  enc_state=spec["enc"]["state"])
    return verdict_ok(nontrivial=nontrivial, classes=sorted(set(classes)), sample=sample)
