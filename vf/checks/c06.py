"""C06 — semi-asynchronous sweep is block Gauss-Seidel in the documented order."""

from __future__ import annotations

import numpy as np

from vf import ref_mdp
from vf.gen_mdp import mdp_specs, spec_classes
from vf.runner import HarnessError, sut_bucket, verdict_fail, verdict_ok

ID = "C06"
LEVEL = "exploration"
RULE = (
    "Hypothesis generates a tabular MDP (2..14 states), an arbitrary start vector, gamma in (0,1] , max_batch_size "
    "(every partition of the states), shuffle on/off, random_seed and a number of sweeps 2..6; shards run under 1, 2 or "
    "3 emulated devices. The solver is stepped with solve(1); after every sweep its values are compared with a numpy "
    "block Gauss-Seidel sweep driven by the layout the solver reports and the state order recorded by the MDPAX_VERIF "
    "hook for that sweep (each device starts from the previous vector, processes its batches in order, sees its own "
    "earlier batches). Also: each recorded order is a permutation of all states (None when shuffling is off), orders "
    "are not all identical across >=4 sweeps of >=6 states, a second solver with the same seed (built from a configuration "
    "object instead of keyword arguments) reproduces orders and "
    "values exactly, and run to convergence (max_diff, tight epsilon) the values are within epsilon of the exact V*. "
    "Non-trivial = >=2 batches on a device, >=2 sweeps and a positive-probability transition from a later position "
    "into an earlier batch; distinct = case digest."
)
ASSUMPTIONS = [
    "the per-sweep state order is observed through the guarded hook attribute _verif_orders (MDPAX_VERIF=1)",
    "float64 agreement tolerance 1e-9*(1+scale)",
]


def plan(tier):
    def env(shard):
        k = (1, 1, 2, 3)[shard % 4]
        return {"XLA_FLAGS": f"--xla_force_host_platform_device_count={k}"}

    if tier == "quick":
        return dict(shards=16, examples=400, time_budget_s=500, min_nontrivial=40, env=env, shrink_cap_s=90)
    return dict(shards=16, examples=6400, time_budget_s=3400, min_nontrivial=240, env=env)


def strategy(tier, shard):
    from hypothesis import strategies as st

    @st.composite
    def cases(draw):
        spec = draw(mdp_specs(max_states=14, min_states=2, allow_pol0=False))
        nS = spec["nS"]
        sc = spec["scale"]
        V0 = [draw(st.integers(-20, 20)) * sc for _ in range(nS)]
        cfg = dict(solver="sa", gamma=draw(st.sampled_from([0.3, 0.7, 0.9, 0.95, 1.0])),
                   eps=float(sc * 1e-5), test="max_diff",
                   mbs=draw(st.one_of(st.integers(1, max(1, nS // 2)), st.integers(1, nS + 2))),
                   shuffle=draw(st.booleans()), seed=draw(st.integers(0, 2**31 - 1)))
        return dict(spec=spec, cfg=cfg, V0=V0, sweeps=draw(st.integers(2, 6)))

    return cases()


def judge(case):
    from vf import sut
    import jax.numpy as jnp

    spec, cfg = case["spec"], case["cfg"]
    nS = spec["nS"]
    gamma = float(cfg["gamma"])
    classes = spec_classes(spec) + [f"devices={sut.n_devices()}", "shuffle" if cfg["shuffle"] else "fixed-order"]
    V = np.asarray(case["V0"], dtype=np.float64)
    try:
        problem = sut.make_problem(spec)
        solver = sut.make_solver(problem, cfg)
        # the twin gets the same parameters (same seed) as a configuration object instead of keyword arguments
        twin = sut.make_solver(problem, cfg, via_config=True)
    except Exception as e:
        return verdict_fail(sut_bucket(e), f"construction raised {e!r}", classes=classes)
    lay = sut.layout(solver)
    if solver.n_pad:
        classes.append("padded")
    nxt, rew, prb = ref_mdp.arrays(spec)
    scale = float(np.max(np.abs(rew))) + float(np.max(np.abs(V)))
    solver.values = jnp.asarray(V)
    twin.values = jnp.asarray(V)
    orders = []
    cur = V.copy()
    for k in range(case["sweeps"]):
        try:
            got = np.asarray(solver.solve(1).values, dtype=np.float64)
            got2 = np.asarray(twin.solve(1).values, dtype=np.float64)
        except Exception as e:
            return verdict_fail(sut_bucket(e), f"sweep {k + 1} raised {e!r}", classes=classes)
        rec = getattr(solver, "_verif_orders", None)
        rec2 = getattr(twin, "_verif_orders", None)
        if rec is None or len(rec) != k + 1 or rec2 is None:
            raise HarnessError("hook attribute _verif_orders missing or of unexpected length (is MDPAX_VERIF=1?)")
        order = rec[-1]
        if cfg["shuffle"]:
            if order is None or sorted(order) != list(range(nS)):
                return verdict_fail("order-not-a-permutation", f"sweep {k + 1}: recorded order {order}", classes=classes)
        elif order is not None:
            return verdict_fail("order-not-natural", f"shuffling is off but sweep {k + 1} used order {order}", classes=classes)
        orders.append(order)
        if rec2[-1] != order or not np.array_equal(got, got2):
            return verdict_fail("not-reproducible-from-seed",
                                f"sweep {k + 1}: same seed, orders {order} vs {rec2[-1]}, max diff {np.max(np.abs(got - got2))}",
                                classes=classes)
        ref = ref_mdp.block_gauss_seidel_sweep(spec, cur, gamma, lay, order)
        tol = 1e-9 * (1 + scale + gamma * float(np.max(np.abs(cur))))
        if got.shape != (nS,) or not np.all(np.isfinite(got)) or np.max(np.abs(got - ref)) > tol:
            s = int(np.argmax(np.abs(got - ref))) if got.shape == (nS,) else -1
            sync = ref_mdp.backup(spec, cur, gamma)[0]
            hint = " (equals the synchronous backup)" if got.shape == (nS,) and np.max(np.abs(got - sync)) <= tol else ""
            return verdict_fail("sweep-not-block-gauss-seidel",
                                f"sweep {k + 1} layout {lay} order {order}: state {s} got {got[s] if s >= 0 else got.shape} "
                                f"expected {ref[s] if s >= 0 else nS}{hint}", classes=classes)
        cur = got
    if cfg["shuffle"] and nS >= 6 and len(orders) >= 4 and all(o == orders[0] for o in orders):
        return verdict_fail("order-not-drawn-afresh", f"{len(orders)} sweeps all used order {orders[0]}", classes=classes)
    if cfg["shuffle"] and nS >= 6 and any(o != list(range(nS)) for o in orders):
        classes.append("non-identity-order")
    # same fixed point as synchronous value iteration
    if gamma < 1:
        P, R = ref_mdp.dense(spec)
        Vstar, _ = ref_mdp.optimal_discounted(P, R, gamma)
        try:
            st = solver.solve(4000)
        except Exception as e:
            return verdict_fail(sut_bucket(e), f"solve raised {e!r}", classes=classes)
        if int(st.info.iteration) < case["sweeps"] + 4000:
            d = float(np.max(np.abs(np.asarray(st.values) - Vstar)))
            eps = float(cfg["eps"])
            if d > eps * (1 + 1e-9) + 1e-9 * (1 + ref_mdp.value_scale(spec, gamma)):
                return verdict_fail("fixed-point-differs-from-synchronous-vi",
                                    f"converged at iteration {int(st.info.iteration)} with |values-V*| = {d:.6g} > eps {eps:.3g}",
                                    classes=classes)
            classes.append("fixed-point-checked")
    # non-triviality: reuse observable
    D, NB, BS = lay
    reuse = False
    if NB >= 2:
        order0 = list(range(nS)) if orders[0] is None else orders[0]
        pos_of = {s: p for p, s in enumerate(order0)}
        for p, s in enumerate(order0):
            d, b = divmod(p // BS, NB)
            for a in range(spec["nA"]):
                for e in range(spec["nE"]):
                    if prb[s, a, e] > 0:
                        q = pos_of[int(nxt[s, a, e])]
                        d2, b2 = divmod(q // BS, NB)
                        if d2 == d and b2 < b:
                            reuse = True
    if reuse:
        classes.append("reuse-observable")
    nontrivial = NB >= 2 and case["sweeps"] >= 2 and reuse
    sample = dict(nS=nS, nA=spec["nA"], nE=spec["nE"], enc=spec["enc"], cfg=cfg, layout=lay, sweeps=case["sweeps"],
                  orders=orders[:3])
    return verdict_ok(nontrivial=nontrivial, classes=sorted(set(classes)), sample=sample)
