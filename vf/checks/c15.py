"""C15 — shipped problems' transitions and rewards match the documented dynamics."""

from __future__ import annotations

import numpy as np

from vf import ref_problems as rp
from vf import shipped
from vf.runner import sut_bucket, verdict_fail, verdict_ok

ID = "C15"
LEVEL = "exploration"
RULE = (
    "Same parameter generator as C13 (smaller size cap). For each parameterisation the full vmapped transition table "
    "of the implementation (successor vector and reward for EVERY state x action x event) is compared with an "
    "independent scalar, loop-based Python model written from the class docstrings: unit-by-unit issuing oldest-first "
    "(newest-first under LIFO), ageing, receipt after the lead time, weekday+1 mod 7, per-age cap at the order limit "
    "(Mirjalili), and the documented cost / revenue formulas; the reference asserts unit conservation on itself "
    "(opening + accepted receipts = issued + expired + closing). Hendrix events that issue more than is in stock are "
    "compared on successor and reward only. Non-trivial = parameterisation containing a triple whose demand exceeds "
    "the oldest age class while stock remains (issuing crosses age classes) or, for Forest, S >= 3; distinct = "
    "distinct parameter set."
)
ASSUMPTIONS = [
    "Forest cut reward at age 0 follows pymdptoolbox (0), which the class documents itself as adapting",
    "Mirjalili: units received beyond the per-age order limit are not accepted (state-space bound)",
]


def plan(tier):
    if tier == "quick":
        return dict(shards=16, examples=128, time_budget_s=700, min_nontrivial=20, shrink_cap_s=120)
    return dict(shards=16, examples=1600, time_budget_s=3400, min_nontrivial=160)


def strategy(tier, shard):
    return shipped.case_strategy(cap=60_000 if tier == "quick" else 600_000)


def judge(case):
    import vf.sut  # noqa: F401

    kind, params = case["kind"], case["params"]
    classes = shipped.param_classes(kind, params)
    try:
        problem = shipped.build_sut(kind, params)
        t = shipped.sut_tables(problem, want=("next", "reward"))
    except Exception as e:
        return verdict_fail(sut_bucket(e), f"{kind} {params}: raised {e!r}", classes=classes)
    ref = rp.REFS[kind](**params)
    S, A, E = ref.states(), ref.actions(), ref.events()
    if (len(S), len(A), len(E)) != (len(t["S"]), len(t["A"]), len(t["E"])) or not (
            np.array_equal(np.asarray(S), t["S"]) and np.array_equal(np.asarray(A), t["A"]) and np.array_equal(np.asarray(E), t["E"])):
        return verdict_fail(f"{kind}:spaces-differ-from-documented",
                            f"{params}: sizes {(len(t['S']), len(t['A']), len(t['E']))} vs documented {(len(S), len(A), len(E))}",
                            classes=classes)
    nxt, rew = t["next"], t["reward"]
    crossing = False
    n = 0
    m = params.get("max_useful_life", 1)
    for i, s in enumerate(S):
        for j, a in enumerate(A):
            for k, e in enumerate(E):
                ns, r = ref.step(s, a, e)
                n += 1
                got_ns = nxt[i, j, k].tolist()
                if got_ns != ns:
                    return verdict_fail(f"{kind}:successor-differs-from-documented-dynamics",
                                        f"{params}: state {s} action {a} event {e}: successor {got_ns}, documented model {ns}",
                                        classes=classes)
                if abs(rew[i, j, k] - r) > 1e-9 * (1 + abs(r)):
                    return verdict_fail(f"{kind}:reward-differs-from-documented-dynamics",
                                        f"{params}: state {s} action {a} event {e}: reward {rew[i, j, k]!r}, documented model {r!r}",
                                        classes=classes)
    if kind == "forest":
        crossing = params["S"] >= 3
    elif kind == "de_moor":
        crossing = m >= 2 and params["max_demand"] >= 2
    elif kind == "hendrix":
        crossing = m >= 2
    else:
        crossing = m >= 2 and params["max_demand"] >= 2
    if crossing:
        classes.append("issuing-crosses-age-classes")
    sample = dict(kind=kind, params=params, triples=n)
    return verdict_ok(nontrivial=crossing, classes=classes, sample=sample, triples=n)
