"""C19 — range spaces enumerate the integer box and the index function inverts them."""

from __future__ import annotations

import itertools

import numpy as np

from vf.runner import verdict_fail, verdict_ok, sut_bucket

ID = "C19"
LEVEL = "exploration"
RULE = (
    "Exhaustive enumeration of all boxes with dimension 1..3 (thorough: 1..4), every lower bound in -3..3 and "
    "every width 0..3 per dimension, split over 16 processes; plus Hypothesis-generated boxes with dimension 1..4, "
    "lower bounds in -2000..2000 and widths 0..7 (<= 4096 vectors). For every box: the listed space is compared "
    "row by row with mins + numpy.unravel_index(i, widths+1) (row-major, each vector once); index_fn is applied "
    "(vmapped) to every listed vector and to every vector of the box enlarged by 2 in each direction and must "
    "return the row of the coordinate-wise clipped vector. Non-trivial = box with >= 2 vectors and at least one "
    "non-zero lower bound or dimension >= 2; distinct = distinct (mins, maxs)."
)
ASSUMPTIONS = [
    "bounds fit comfortably in int32 (the constructor casts to int32)",
    "numpy.unravel_index / numpy.clip are the oracle for row-major order and nearest-in-each-coordinate",
]


def plan(tier):
    if tier == "quick":
        return dict(shards=16, examples=1600, time_budget_s=600, min_nontrivial=5000)
    return dict(shards=16, examples=16000, time_budget_s=3000, min_nontrivial=40000)


def _judge_box(mins, maxs, outside=2):
    import jax
    import jax.numpy as jnp
    from mdpax.utils.spaces import create_range_space

    mins = [int(x) for x in mins]
    maxs = [int(x) for x in maxs]
    d = len(mins)
    dims = [b - a + 1 for a, b in zip(mins, maxs)]
    n = int(np.prod(dims))
    nontrivial = n >= 2 and (any(m != 0 for m in mins) or d >= 2)
    classes = [f"dim{d}"]
    if any(m < 0 for m in mins):
        classes.append("negative-min")
    if any(m != 0 for m in mins):
        classes.append("nonzero-min")
    if any(w == 1 for w in dims):
        classes.append("zero-width-dim")
    try:
        space, index_fn = create_range_space(jnp.array(mins), jnp.array(maxs))
        space_np = np.asarray(space)
    except Exception as e:  # the constructor is documented to accept every mins <= maxs
        return verdict_fail(sut_bucket(e), f"constructor raised {e!r}", classes=classes)
    expected = np.stack(np.unravel_index(np.arange(n), dims), axis=1) + np.array(mins)
    if space_np.shape != (n, d):
        return verdict_fail("space-shape", f"shape {space_np.shape} != {(n, d)}", classes=classes)
    if not np.array_equal(space_np, expected):
        i = int(np.argmax(np.any(space_np != expected, axis=1)))
        return verdict_fail("space-not-row-major-product",
                            f"row {i}: got {space_np[i].tolist()} expected {expected[i].tolist()}", classes=classes)
    # listed vectors -> own row
    try:
        idx = np.asarray(jax.vmap(index_fn)(jnp.asarray(expected, dtype=jnp.int32)))
    except Exception as e:
        return verdict_fail(sut_bucket(e), f"index_fn raised {e!r}", classes=classes)
    if not np.array_equal(idx, np.arange(n)):
        i = int(np.argmax(idx != np.arange(n)))
        return verdict_fail("index-not-inverse",
                            f"index_fn({expected[i].tolist()}) = {int(idx[i])}, expected row {i}; all={idx[:12].tolist()}",
                            classes=classes)
    # also one un-vmapped scalar call (the documented calling convention)
    j = n - 1
    try:
        one = int(index_fn(jnp.asarray(expected[j], dtype=jnp.int32)))
    except Exception as e:
        return verdict_fail(sut_bucket(e), f"index_fn raised {e!r}", classes=classes)
    if one != j:
        return verdict_fail("index-not-inverse", f"scalar index_fn({expected[j].tolist()}) = {one}, expected {j}",
                            classes=classes)
    # outside vectors -> nearest row in each coordinate, never an exception
    if outside:
        ranges = [range(a - outside, b + outside + 1) for a, b in zip(mins, maxs)]
        total = int(np.prod([len(r) for r in ranges]))
        if total <= 20000:
            vs = np.array(list(itertools.product(*ranges)), dtype=np.int64)
        else:  # corners and face centres only
            vs = np.array(list(itertools.product(*[(a - outside, a, b, b + outside) for a, b in zip(mins, maxs)])),
                          dtype=np.int64)
        clipped = np.clip(vs, np.array(mins), np.array(maxs)) - np.array(mins)
        exp_idx = np.ravel_multi_index(tuple(clipped.T), dims)
        try:
            got = np.asarray(jax.vmap(index_fn)(jnp.asarray(vs, dtype=jnp.int32)))
        except Exception as e:
            return verdict_fail(sut_bucket(e), f"index_fn raised on outside vectors {e!r}", classes=classes)
        if not np.array_equal(got, exp_idx):
            i = int(np.argmax(got != exp_idx))
            inside = bool(np.all((vs[i] >= mins) & (vs[i] <= maxs)))
            return verdict_fail("index-not-inverse" if inside else "outside-not-nearest",
                                f"index_fn({vs[i].tolist()}) = {int(got[i])}, expected {int(exp_idx[i])}",
                                classes=classes)
        classes.append("outside-checked")
    return verdict_ok(nontrivial=nontrivial, classes=classes)


def judge(case):
    return _judge_box(case["mins"], case["maxs"], case.get("outside", 2))


def enumerate_run(tier, shard, nshards):
    from collections import Counter

    maxdim = 3 if tier == "quick" else 4
    per = [(m, m + w) for m in range(-3, 4) for w in range(0, 4)]
    n_eval = 0
    n_nt = 0
    classes = Counter()
    samples = []
    failures = []
    seen_buckets = set()
    k = 0
    for d in range(1, maxdim + 1):
        for combo in itertools.product(per, repeat=d):
            k += 1
            if k % nshards != shard:
                continue
            mins = [c[0] for c in combo]
            maxs = [c[1] for c in combo]
            v = _judge_box(mins, maxs, 2 if d <= 3 else 1)
            n_eval += 1
            for c in v["classes"]:
                classes[c] += 1
            if v["ok"]:
                if v["nontrivial"]:
                    n_nt += 1
                    if len(samples) < 3 and k % 997 < 40:
                        samples.append(dict(mins=mins, maxs=maxs))
            else:
                if v["bucket"] not in seen_buckets:  # first (= smallest, enumeration is ordered) per bucket
                    seen_buckets.add(v["bucket"])
                    failures.append(dict(case=dict(mins=mins, maxs=maxs), verdict=v))
    return dict(evaluations=n_eval, distinct_nontrivial=n_nt, classes=dict(classes), samples=samples,
                failures=failures, exhaustive=True,
                box=f"dimension 1..{maxdim}, mins -3..3, widths 0..3, outside margin 2 (1 for dimension 4)")


def strategy(tier, shard):
    from hypothesis import strategies as st

    @st.composite
    def boxes(draw):
        d = draw(st.integers(1, 4))
        mins, maxs = [], []
        budget = 4096
        for _ in range(d):
            m = draw(st.one_of(st.integers(-6, 6), st.integers(-2000, 2000)))
            w = draw(st.integers(0, 7))
            while (w + 1) > budget:
                w //= 2
            budget //= (w + 1)
            mins.append(m)
            maxs.append(m + w)
        return dict(mins=mins, maxs=maxs, outside=draw(st.integers(1, 3)))

    return boxes()
