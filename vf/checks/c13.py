"""C13 — shipped problems define a probability distribution for every state-action pair."""

from __future__ import annotations

import numpy as np

from vf import shipped
from vf.runner import sut_bucket, verdict_fail, verdict_ok

ID = "C13"
LEVEL = "exploration"
RULE = (
    "Hypothesis generates valid parameterisations of Forest (S<=40, p in [0,1] incl. 0 and 1), De Moor (useful life "
    "1..5, lead time 1..4, order limit 1..4, max demand 1..15, gamma mean (0,12], cov [0.1,2], both issuing policies), "
    "Hendrix (useful life 1..3, order limits 1..4, Poisson means (0,30], substitution probability [0,1] incl. ends) and "
    "Mirjalili (useful life 1..4, order limit 1..5, max demand 1..10, n and delta (0,15], logit coefficients [-3,3]) "
    "with S*A*E below a cap; for each, random_event_probability is evaluated on EVERY state x action x event (one "
    "vmapped call) and every entry must be finite and >= -1e-12 and every state-action row must sum to one within "
    "1e-4. Non-trivial = parameterisation with S*A >= 4; distinct = distinct parameter set."
)
ASSUMPTIONS = ["complete enumeration per parameterisation; parameter space itself is sampled"]


def plan(tier):
    if tier == "quick":
        return dict(shards=16, examples=160, time_budget_s=600, min_nontrivial=40, shrink_cap_s=120)
    return dict(shards=16, examples=2400, time_budget_s=3400, min_nontrivial=240)


def strategy(tier, shard):
    return shipped.case_strategy(cap=300_000 if tier == "quick" else 2_000_000)


def judge(case):
    import vf.sut  # noqa: F401  (enables x64)

    kind, params = case["kind"], case["params"]
    classes = shipped.param_classes(kind, params)
    try:
        problem = shipped.build_sut(kind, params)
        t = shipped.sut_tables(problem, want=("prob",))
    except Exception as e:
        return verdict_fail(sut_bucket(e), f"{kind} {params}: raised {e!r}", classes=classes)
    p = t["prob"]
    nS, nA, nE = p.shape
    if not np.all(np.isfinite(p)):
        i = np.argwhere(~np.isfinite(p))[0]
        return verdict_fail(f"{kind}:non-finite-probability", f"{params}: state {t['S'][i[0]].tolist()} action {t['A'][i[1]].tolist()} "
                            f"event {t['E'][i[2]].tolist()} -> {p[tuple(i)]}", classes=classes)
    if p.min() < -1e-12:
        i = np.unravel_index(int(np.argmin(p)), p.shape)
        return verdict_fail(f"{kind}:negative-probability", f"{params}: state {t['S'][i[0]].tolist()} action {t['A'][i[1]].tolist()} "
                            f"event {t['E'][i[2]].tolist()} -> {p[i]}", classes=classes)
    sums = p.sum(axis=2)
    dev = np.abs(sums - 1.0)
    if dev.max() > 1e-4:
        i = np.unravel_index(int(np.argmax(dev)), dev.shape)
        return verdict_fail(f"{kind}:row-does-not-sum-to-one",
                            f"{params}: state {t['S'][i[0]].tolist()} action {t['A'][i[1]].tolist()} probabilities sum to {sums[i]:.6f} "
                            f"(range over all rows {sums.min():.6f}..{sums.max():.6f})", classes=classes)
    sample = dict(kind=kind, params=params, S=nS, A=nA, E=nE, max_row_deviation=float(dev.max()))
    return verdict_ok(nontrivial=nS * nA >= 4, classes=classes, sample=sample)
