"""C09 — interrupt-and-resume at any iteration equals an uninterrupted run."""

from __future__ import annotations

import numpy as np

from vf import ckpt, ref_mdp
from vf.runner import verdict_fail, verdict_ok

ID = "C09"
LEVEL = "fault_enumeration"
RULE = (
    "Hypothesis generates a solver (VI, PI, relative VI, periodic VI, semi-async fixed order; semi-async shuffled for "
    "the bound-only clause) x problem (config-less tabular -> load_checkpoint route; small Forest / De Moor / Hendrix / "
    "Mirjalili -> restore route or load route) x checkpoint_frequency 1..3 x max_checkpoints 1..3 x sync/async x a chain "
    "of 1..3 interruption points mapped onto 1..n_conv-1 (n_conv = convergence iteration of the uninterrupted run). "
    "Every segment runs in a FRESH process: build or restore from the directory, solve(k), wait for pending writes, "
    "exit; the last segment runs to convergence. Oracle: the final values, policy, iteration, gain, value history and "
    "its index must equal, bit for bit, those of one uninterrupted process without checkpointing; half of the cases "
    "also run an uninterrupted process WITH checkpointing, which must equal it too. Shuffled semi-async: the resumed "
    "run must converge within epsilon of the exact V* (max_diff). The thorough tier additionally enumerates EVERY "
    "interruption iteration k = 1..n_conv-1 of one fixed small instance per solver. Non-trivial = interruption "
    "strictly inside the run (1 <= k < n_conv) with n_conv >= 3; distinct = case digest."
)
ASSUMPTIONS = [
    "same machine, same JAX build: bit-for-bit reproducibility across processes is expected and required",
    "PeriodicValueIteration is run with clear_value_history_on_convergence=False (see known finding F10)",
]


def plan(tier):
    if tier == "quick":
        return dict(shards=16, examples=48, time_budget_s=900, min_nontrivial=6, shrink_cap_s=150)
    return dict(shards=16, examples=640, time_budget_s=3500, min_nontrivial=80)


def strategy(tier, shard):
    from hypothesis import strategies as st

    @st.composite
    def cases(draw):
        problem = draw(ckpt.problem_descs(rot=shard))
        solver = draw(ckpt.solver_descs(allow_shuffle=(problem["kind"] == "tabular"), rot=shard))
        if solver["kind"] == "sa" and solver["params"].get("shuffle_states"):
            solver["params"]["convergence_test"] = "max_diff"
        route = "load" if problem["kind"] == "tabular" else draw(st.sampled_from(["restore", "restore", "load"]))
        return dict(problem=problem, solver=solver, f=draw(st.integers(1, 3)), m=draw(st.integers(1, 3)), async_=draw(st.booleans()),
                    cuts=[draw(st.integers(0, 10**6)) for _ in range(draw(st.integers(1, 3)))], route=route,
                    with_ckpt_uninterrupted=draw(st.booleans()))

    return cases()


FIELDS = ("iteration", "values", "policy", "gain", "history", "history_index", "period")


def _judge(case, fixed_cuts=None):
    problem, sdesc = case["problem"], case["solver"]
    kind = sdesc["kind"]
    shuffled = bool(sdesc["params"].get("shuffle_states"))
    classes = [f"solver-{kind}" + ("-shuffled" if shuffled else ""), f"problem-{problem['kind']}", f"route-{case['route']}",
               "async" if case["async_"] else "sync", f"f={case['f']}", f"m={case['m']}"]
    base = ckpt.new_dir("c09")
    dirA, dirU = base / "a", base / "u"
    LIMIT = 3000
    try:
        ref = ckpt.run_ok(dict(problem=problem, solver=ckpt.with_ckpt(sdesc, None, 0, 1, True), calls=[LIMIT], snapshot=False))
        if ref["error"]:
            return verdict_fail("uninterrupted-run:" + ref["error"]["bucket"], f"{kind}/{problem['kind']}: {ref['error']}", classes=classes)
        n_conv = ref["final"]["iteration"]
        if n_conv >= LIMIT or n_conv < 2:
            return verdict_ok(nontrivial=False, classes=classes + ["no-interior-point"])
        def _cut(c):
            # a third of the interruption points sit right before convergence (n_conv-1, n_conv-2, n_conv-3), the rest anywhere
            if c % 3 == 0:
                return max(1, n_conv - 1 - (c // 3) % 3)
            return 1 + (c % (n_conv - 1))

        cuts = fixed_cuts if fixed_cuts is not None else sorted({_cut(c) for c in case["cuts"]})
        # segments
        prev = 0
        res = None
        for i, c in enumerate(cuts + [None]):
            k = (c - prev) if c is not None else LIMIT
            if i == 0:
                scen = dict(problem=problem, solver=ckpt.with_ckpt(sdesc, dirA, case["f"], case["m"], case["async_"]), calls=[k], snapshot=False)
            elif case["route"] == "restore":
                scen = dict(solver=dict(kind=kind, params={}), restore=dict(route="restore", dir=str(dirA)), calls=[k], snapshot=False)
            else:
                scen = dict(problem=problem, solver=ckpt.with_ckpt(sdesc, dirA, case["f"], case["m"], case["async_"]),
                            restore=dict(route="load", dir=str(dirA)), calls=[k], snapshot=False)
            res = ckpt.run_ok(scen)
            if res["error"]:
                return verdict_fail(f"segment-{'first' if i == 0 else 'resumed'}:" + res["error"]["bucket"],
                                    f"{kind}/{problem['kind']} cuts={cuts} segment {i}: {res['error']}", classes=classes)
            if i > 0 and res["restored"]["iteration"] != prev:
                return verdict_fail("resumed-from-wrong-iteration", f"interrupted at {prev}, the fresh process resumed at "
                                    f"{res['restored']['iteration']} (steps on disk {ckpt.steps_in(dirA)[0]})", classes=classes)
            if c is not None:
                if res["final"]["iteration"] != c:
                    return verdict_fail("segment-iteration", f"segment {i}: expected to stop at {c}, stopped at {res['final']['iteration']}", classes=classes)
                prev = c
        fin = res["final"]
        if shuffled:
            if problem["kind"] == "tabular" and fin["iteration"] < prev + LIMIT and sdesc["params"].get("jax_double_precision", True):
                spec = problem["spec"]
                gamma = float(sdesc["params"]["gamma"])
                P, R = ref_mdp.dense(spec)
                Vs, _ = ref_mdp.optimal_discounted(P, R, gamma)
                eps = float(sdesc["params"]["epsilon"])
                d = float(np.max(np.abs(np.asarray(fin["values"]) - Vs)))
                if d > eps * (1 + 1e-9) + 1e-9 * (1 + ref_mdp.value_scale(spec, gamma)):
                    return verdict_fail("shuffled-resume-outside-error-bound", f"|values - V*| = {d:.6g} > eps {eps}", classes=classes)
            classes.append("bound-only")
        else:
            bad = ckpt.state_equal(fin, ref["final"], FIELDS)
            if bad:
                x, y = fin.get(bad), ref["final"].get(bad)
                extra = ""
                if bad == "values":
                    extra = f" (max abs difference {np.max(np.abs(np.asarray(x) - np.asarray(y))):.3g})"
                return verdict_fail(f"resumed-run-differs:{bad}",
                                    f"{kind}/{problem['kind']} route={case['route']} f={case['f']} m={case['m']} async={case['async_']} "
                                    f"interruptions at {cuts} of {n_conv}: field '{bad}' resumed={str(x)[:100]} uninterrupted={str(y)[:100]}{extra}",
                                    classes=classes)
        if case.get("with_ckpt_uninterrupted") and not shuffled:
            u = ckpt.run_ok(dict(problem=problem, solver=ckpt.with_ckpt(sdesc, dirU, case["f"], case["m"], case["async_"]), calls=[LIMIT], snapshot=False))
            if u["error"]:
                return verdict_fail("checkpointed-run:" + u["error"]["bucket"], f"{u['error']}", classes=classes)
            bad = ckpt.state_equal(u["final"], ref["final"], FIELDS)
            if bad:
                return verdict_fail(f"checkpointing-changes-result:{bad}", f"{kind}/{problem['kind']} f={case['f']} m={case['m']} async={case['async_']}", classes=classes)
            classes.append("checkpointed-uninterrupted-compared")
        if len(cuts) >= 2:
            classes.append("repeated-interruptions")
        sample = dict(kind=kind, problem=problem["kind"], route=case["route"], f=case["f"], m=case["m"], async_=case["async_"],
                      n_conv=n_conv, cuts=cuts)
        return verdict_ok(nontrivial=bool(n_conv >= 3), classes=classes, sample=sample)
    finally:
        ckpt.cleanup(base)


def judge(case):
    return _judge(case, case.get("fixed_cuts"))


def enumerate_run(tier, shard, nshards):
    """Thorough tier: every interruption iteration of one fixed small instance per solver."""
    from collections import Counter

    if tier != "thorough":
        return dict(evaluations=0, distinct_nontrivial=0, classes={}, samples=[], failures=[], exhaustive=False,
                    box="(thorough tier only) every interruption iteration k=1..n_conv-1 for one fixed instance per solver")
    problem = dict(kind="forest", params=dict(S=5, r1=6.0, r2=2.0, p=0.2))
    solvers = [dict(kind="vi", params=dict(epsilon=1e-3, gamma=0.9, max_batch_size=2, convergence_test="span")),
               dict(kind="pi", params=dict(epsilon=1e-3, gamma=0.9, max_batch_size=2, convergence_test="span", max_eval_iter=3,
                                           reset_values_for_each_policy_eval=False)),
               dict(kind="rvi", params=dict(epsilon=1e-3, max_batch_size=2)),
               dict(kind="pvi", params=dict(epsilon=1e-3, gamma=0.9, period=2, max_batch_size=2, clear_value_history_on_convergence=False)),
               dict(kind="sa", params=dict(epsilon=1e-3, gamma=0.9, max_batch_size=2, convergence_test="span", shuffle_states=False, random_seed=1))]
    n_eval = n_nt = 0
    classes = Counter()
    failures, samples = [], []
    idx = 0
    for s in solvers:
        ref = ckpt.run_ok(dict(problem=problem, solver=ckpt.with_ckpt(s, None, 0, 1, True), calls=[3000], snapshot=False))
        n_conv = ref["final"]["iteration"]
        for k in range(1, n_conv):
            idx += 1
            if idx % nshards != shard:
                continue
            case = dict(problem=problem, solver=s, f=1 + (k % 3), m=1 + (k % 2), async_=bool(k % 2), cuts=[], route="restore" if k % 2 else "load",
                        with_ckpt_uninterrupted=False, fixed_cuts=[k])
            v = _judge(case, [k])
            n_eval += 1
            classes[f"enumerated-{s['kind']}"] += 1
            if v["ok"]:
                n_nt += 1
                if len(samples) < 2:
                    samples.append(dict(kind=s["kind"], k=k, n_conv=n_conv))
            else:
                failures.append(dict(case=case, verdict=v))
    return dict(evaluations=n_eval, distinct_nontrivial=n_nt, classes=dict(classes), samples=samples, failures=failures,
                exhaustive=True, box="every interruption iteration k=1..n_conv-1, Forest(S=5), one configuration per solver")
