"""C04 — relative value iteration reports the optimal average reward within epsilon."""

from __future__ import annotations

import numpy as np

from vf import ref_mdp
from vf.gen_mdp import mdp_specs, spec_classes
from vf.runner import sut_bucket, verdict_fail, verdict_ok

ID = "C04"
LEVEL = "exploration"
RULE = (
    "Hypothesis generates unichain aperiodic MDPs by construction (hub chains: every state-action pair reaches a hub "
    "state that has a self-loop; optionally slowly mixing; transient states arise freely) and free-form small MDPs "
    "that are kept only if brute-force enumeration of all deterministic policies shows a single recurrent class "
    "(rejections counted), an epsilon relative to the reward scale, optional initial values, a batch size and a "
    "limit. Oracle: g* and a solution h* of the optimality equation from average-reward Howard PI (residual "
    "checked; cross-checked against enumeration of all policies when nA^nS <= 2048). On reported convergence: "
    "|gain - g*| <= eps, g* - gain(policy) <= eps (stationary distribution of the returned policy), and "
    "|T V - V - gain| <= eps at every state (numpy undiscounted backup). For every n >= 2, converged or not, the "
    "relative values must satisfy |(V_n - V_n[last]) - (h* - h*[last])| <= span(V_0 - h*) and |V_n[last]| <= |g*| + 2 "
    "span(V_0 - h*) + span(h*) - bounds independent of n (valid for any choice of reference state), asserted again "
    "after 150 and 300 sweeps with an epsilon too small to stop. Non-trivial = converged in >= 3 "
    "sweeps, nA >= 2 and at least two policies with different gains; distinct = case digest."
)
ASSUMPTIONS = [
    "unichain structure is guaranteed by construction or by brute-force enumeration; aperiodicity by a self-loop",
    "policy gain uses the unique stationary distribution (least squares on the balance equations)",
]

F11 = "F11-rvi-gain-ignores-initial-value-of-reference-state"


def plan(tier):
    def env(shard):
        k = (1, 1, 1, 2)[shard % 4]
        return {"XLA_FLAGS": f"--xla_force_host_platform_device_count={k}"}

    if tier == "quick":
        return dict(shards=16, examples=400, time_budget_s=600, min_nontrivial=20, env=env, shrink_cap_s=90)
    return dict(shards=16, examples=6400, time_budget_s=3400, min_nontrivial=240, env=env)


def strategy(tier, shard):
    from hypothesis import strategies as st

    @st.composite
    def cases(draw):
        mode = draw(st.sampled_from(["hub", "hub", "hub-sticky", "free"]))
        if mode == "free":
            spec = draw(mdp_specs(max_states=5, max_actions=3, allow_pol0=False, structure=False, allow_int_v0=True))
        else:
            spec = draw(mdp_specs(max_states=9, allow_pol0=False, chain="hub", sticky=(mode == "hub-sticky"), allow_int_v0=True))
        spec["flags"] = spec["flags"] + [mode]
        nS, sc = spec["nS"], spec["scale"]
        cfg = dict(solver="rvi", gamma=1.0, eps=float(sc * 10.0 ** draw(st.sampled_from([-5, -4, -3, -2, -1, 0, 0.5, 1.5]))),
                   mbs=draw(st.one_of(st.integers(1, nS + 2), st.integers(1, max(1, nS // 2)))))
        limit = draw(st.sampled_from([3, 30, 3000, 3000, 3000]))
        # histories: the limit may be reached in two calls; the split is placed around the model's convergence sweep
        # (one sweep before it, at it - so that the second call starts on a converged solver - or anywhere)
        from vf.checks.c08 import _model_conv_iteration

        nconv = _model_conv_iteration(spec, cfg, cap=300)
        opts = [None, None, draw(st.integers(1, max(1, limit - 1)))]
        if nconv is not None:
            opts += [max(1, nconv - 1), max(1, nconv - 2), nconv]
        split = draw(st.sampled_from(opts))
        if split is not None and split >= limit:
            split = None
        return dict(spec=spec, cfg=cfg, limit=limit, split=split, drift_probe=draw(st.integers(0, 3)) == 0)

    return cases()


def judge(case):
    from vf import sut

    spec, cfg, limit = case["spec"], case["cfg"], int(case["limit"])
    nS, nA = spec["nS"], spec["nA"]
    eps = float(cfg["eps"])
    classes = spec_classes(spec) + [f"devices={sut.n_devices()}"]
    P, R = ref_mdp.dense(spec)
    if "free" in spec["flags"]:
        uni = ref_mdp.is_unichain_all_policies(P, limit=4096)
        if uni is not True:
            return verdict_ok(nontrivial=False, classes=classes + ["rejected-not-unichain"])
    gstar, hstar, _ = ref_mdp.optimal_gain_howard(P, R)
    en = ref_mdp.optimal_gain_enum(P, R, limit=2048)
    rmax = float(np.max(np.abs(R)))
    if en is not None and abs(en[0] - gstar) > 1e-7 * (1 + rmax):
        raise ref_mdp.OracleError(f"gain oracles disagree: enumeration {en[0]} vs Howard {gstar}")
    n_gains = en[2] if en is not None else None
    V0 = ref_mdp.initial_values(spec)
    try:
        problem = sut.make_problem(spec)
        solver = sut.make_solver(problem, cfg)
        split = case.get("split")
        if split:
            st1 = solver.solve(int(split))
            first_converged = int(st1.info.iteration) < int(split)
            classes.append("two-calls")
            st = solver.solve(limit - int(split))
            second_sweeps = int(st.info.iteration) - int(st1.info.iteration)
            if first_converged or second_sweeps < limit - int(split):
                limit = int(st.info.iteration) + 1  # the last call ended by convergence
                classes.append("second-call-converged" + ("-on-converged-solver" if first_converged else ""))
        else:
            st = solver.solve(limit)
    except Exception as e:
        return verdict_fail(sut_bucket(e), f"raised {e!r}", classes=classes)
    it = int(st.info.iteration)
    vals = np.asarray(st.values, dtype=np.float64)
    gain = float(st.info.gain)
    if vals.shape != (nS,) or not np.all(np.isfinite(vals)) or not np.isfinite(gain):
        return verdict_fail("result-shape-or-nonfinite", f"values {vals.shape} gain {gain}", classes=classes)
    converged = it < limit
    tol = 1e-9 * (1 + rmax + float(np.max(np.abs(vals))) + float(np.max(np.abs(V0))))
    known = None
    if it == 1 and abs(V0[-1]) > 0 and not case.get("split"):
        known = F11  # region of known finding F11 (first sweep, non-zero initial value at the reference state)
    info = f"eps={eps:.4g} iteration={it} gain={gain:.9g} g*={gstar:.9g} layout={sut.layout(solver)}"

    def bounded(v, n, label):
        """n-independent bounds that hold for every relative-value scheme V_n = W_n - c_n (W_n plain iterates):
        shape: |(V_n - V_n[last]) - (h* - h*[last])| <= span(V_0 - h*);
        level: |V_n[last]| <= |g*| + 2 span(V_0 - h*) + span(h*)   (reference state = any state)."""
        if n < 2:
            return None
        sp0 = ref_mdp.span(V0 - hstar)
        slack = 1e-8 * (1 + rmax + float(np.max(np.abs(hstar))) + float(np.max(np.abs(V0)))) * max(1, n) ** 0.5
        d = float(np.max(np.abs((v - v[-1]) - (hstar - hstar[-1]))))
        if d > sp0 * (1 + 1e-9) + slack:
            return verdict_fail("relative-values-not-bounded:shape",
                                f"{label}: after {n} sweeps |(V - V[last]) - (h* - h*[last])| = {d:.6g} exceeds span(V0 - h*) = {sp0:.6g}",
                                classes=classes)
        level = abs(gstar) + 2 * sp0 + ref_mdp.span(hstar)
        if abs(float(v[-1])) > level * (1 + 1e-9) + slack:
            return verdict_fail("relative-values-not-bounded:level",
                                f"{label}: after {n} sweeps |V[last]| = {abs(float(v[-1])):.6g} exceeds the n-independent bound {level:.6g} "
                                f"(g* = {gstar:.6g}: plain iterates would have drifted by about {n * gstar:.6g})", classes=classes)
        return None

    if converged:
        pidx = sut.policy_to_indices(spec, np.asarray(st.policy))
        if np.any(pidx < 0):
            return verdict_fail("policy-row-not-in-action-space", f"{np.asarray(st.policy).tolist()}", classes=classes)
        if abs(gain - gstar) > eps * (1 + 1e-9) + tol:
            return verdict_fail("gain-not-within-eps", f"{info}: |gain - g*| = {abs(gain - gstar):.6g}", classes=classes, known=known)
        gpi, _ = ref_mdp.stationary_gain(P, R, pidx)
        if gstar - gpi > eps * (1 + 1e-9) + tol:
            return verdict_fail("policy-gain-not-within-eps", f"{info}: g* - gain(policy) = {gstar - gpi:.6g}", classes=classes,
                                known=known)
        TV = ref_mdp.backup(spec, vals, 1.0)[0]
        res = float(np.max(np.abs(TV - vals - gain)))
        if res > eps * (1 + 1e-9) + tol:
            return verdict_fail("optimality-equation-residual", f"{info}: max |TV - V - gain| = {res:.6g}", classes=classes,
                                known=known)
        if abs(gain - gstar) >= 0.1 * eps or res >= 0.1 * eps:
            classes.append("tight")
        classes.append("converged")
    v = bounded(vals, it, "solve")
    if v is not None:
        return v
    if case.get("drift_probe") and abs(gstar) > 1e-6 * (1 + rmax):
        cfg2 = dict(cfg, eps=1e-290)
        try:
            s2 = sut.make_solver(problem, cfg2)
            for rounds in (150, 300):
                st2 = s2.solve(150)
                v = bounded(np.asarray(st2.values, dtype=np.float64), int(st2.info.iteration), "tiny-epsilon run")
                if v is not None:
                    return v
        except Exception as e:
            return verdict_fail(sut_bucket(e), f"tiny-epsilon run raised {e!r}", classes=classes)
        classes.append("drift-probed")
    nontrivial = converged and it >= 3 and nA >= 2 and (n_gains is None or n_gains >= 2)
    sample = dict(nS=nS, nA=nA, nE=spec["nE"], flags=spec["flags"], cfg=cfg, limit=limit, iteration=it, gain=gain, gstar=gstar)
    return verdict_ok(nontrivial=nontrivial, classes=sorted(set(classes)), sample=sample)
