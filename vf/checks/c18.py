"""C18 — batching places every state exactly once and round-trips losslessly."""

from __future__ import annotations

import os

import numpy as np

from vf.runner import verdict_fail, verdict_ok, sut_bucket

ID = "C18"
LEVEL = "exploration"
RULE = (
    "Exhaustive enumeration of (n_states, max_batch_size, device count) over 1..N x 1..M x 1..8 (quick N=120, M=70; "
    "thorough N=400, M=200) split over 16 processes, plus Hypothesis-generated triples with n_states up to 10^6 and "
    "max_batch_size up to 10^5. Each triple: build the BatchProcessor with an explicit device count, batch a state "
    "array whose rows are all distinct and non-zero, compare the flattened layout with 'states in order, then only "
    "zero padding', check shape/size/padding arithmetic, and un-batch distinct-valued results with trailing shapes "
    "(), (k,), (k,l). The array part runs the BatchProcessor source with numpy substituted for jax.numpy (speed), with a "
    "fixed sub-box (n<=16, mb<=8, plus every 67th triple) and a quarter of the generated triples on real jax.numpy; any "
    "failure under the substitution is re-judged on real jax.numpy before it is reported. Every shard also checks that the default device count equals len(jax.devices()) under 1..4 "
    "emulated host devices. Non-trivial = triple with padding > 0 or more than one batch per device; distinct = "
    "distinct triple."
)
ASSUMPTIONS = [
    "device count is passed explicitly (pmap_device_count) for the enumerated box; the default-count clause is "
    "checked under emulated host devices (XLA_FLAGS=--xla_force_host_platform_device_count)",
]

_EXPECT = {}


def _devices_for_shard(shard):
    return (shard % 4) + 1


def plan(tier):
    def env(shard):
        k = _devices_for_shard(shard)
        return {"XLA_FLAGS": f"--xla_force_host_platform_device_count={k} --xla_cpu_multi_thread_eigen=false "
                             "intra_op_parallelism_threads=1", "VF_EXPECT_DEVICES": str(k)}

    if tier == "quick":
        return dict(shards=16, examples=3200, time_budget_s=900, min_nontrivial=20000, env=env)
    return dict(shards=16, examples=32000, time_budget_s=3400, min_nontrivial=80000, env=env)


class _NumpyBackend:
    """Runs the real BatchProcessor source with numpy substituted for jax.numpy (XLA compiles every new
    shape, ~100 ms per triple; numpy takes microseconds). Any failure seen under this substitution is
    re-judged with the real jax.numpy backend before it is reported, so the substitution can hide nothing
    it reports and cannot raise a false alarm; a fixed sub-box is always run with real jax.numpy."""

    def __enter__(self):
        import mdpax.utils.batch_processing as m

        self.m, self.old = m, m.jnp
        m.jnp = np
        return self

    def __exit__(self, *a):
        self.m.jnp = self.old


def _judge(n, mb, D, sd=1, arrays=True, k=2, l=3, default_devices=False, backend="jax"):
    if backend == "numpy":
        with _NumpyBackend():
            v = _judge_impl(n, mb, D, sd, arrays, k, l, default_devices, np)
        if v["ok"]:
            v["classes"].append("numpy-backend")
            return v
    import jax.numpy as jnp

    v = _judge_impl(n, mb, D, sd, arrays, k, l, default_devices, jnp)
    v["classes"].append("jax-backend")
    return v


def _judge_impl(n, mb, D, sd, arrays, k, l, default_devices, jnp):
    from mdpax.utils.batch_processing import BatchProcessor

    classes = []
    try:
        if default_devices:
            bp = BatchProcessor(n_states=n, state_dim=sd, max_batch_size=mb)
        else:
            bp = BatchProcessor(n_states=n, state_dim=sd, max_batch_size=mb, pmap_device_count=D)
    except Exception as e:
        return verdict_fail(sut_bucket(e), f"constructor raised {e!r}")
    nd, nb, bs, npad = bp.n_devices, bp.n_batches, bp.batch_size, bp.n_pad
    info = f"n={n} mb={mb} D={D} -> devices={nd} batches={nb} batch_size={bs} pad={npad}"
    if default_devices:
        import jax

        if nd != len(jax.devices()) or nd != D:
            return verdict_fail("default-device-count", f"{info}; jax.devices()={len(jax.devices())} expected {D}")
    if nd != D:
        return verdict_fail("device-count", info)
    if not (isinstance(bs, (int, np.integer)) and 1 <= bs <= mb):
        return verdict_fail("batch-size-range", info)
    if nb < 1 or npad < 0:
        return verdict_fail("negative-or-zero-count", info)
    if nd * nb * bs != n + npad:
        return verdict_fail("slot-count", info)
    if tuple(bp.batch_shape) != (nd, nb, bs):
        return verdict_fail("batch-shape-property", f"{info}; batch_shape={bp.batch_shape}")
    nontrivial = npad > 0 or nb > 1
    if npad > 0:
        classes.append("padded")
    if nb > 1:
        classes.append("multi-batch")
    if npad == 0 and nd > 1:
        classes.append("multi-device-no-padding")
    if n < nd:
        classes.append("fewer-states-than-devices")
    if npad >= bs:
        classes.append("whole-batch-of-padding")
    if arrays:
        # first use of the processor: a FLOAT array (then integers below): layout and values must not depend on earlier calls
        stf = np.arange(n * sd, dtype=np.float64).reshape(n, sd) + 0.5
        try:
            bf = np.asarray(bp.prepare_batches(jnp.asarray(stf)))
        except Exception as e:
            return verdict_fail(sut_bucket(e), f"prepare_batches raised {e!r}; {info}")
        if bf.shape != (nd, nb, bs, sd) or not np.array_equal(bf.reshape(-1, sd)[:n].astype(np.float64), np.asarray(jnp.asarray(stf)).astype(np.float64)):
            return verdict_fail("states-not-in-order", f"{info} (float state array)")
        states = (np.arange(n * sd, dtype=np.int32).reshape(n, sd) + 1)
        try:
            b = np.asarray(bp.prepare_batches(jnp.asarray(states)))
        except Exception as e:
            return verdict_fail(sut_bucket(e), f"prepare_batches raised {e!r}; {info}")
        if b.shape != (nd, nb, bs, sd):
            return verdict_fail("batched-shape", f"{info}; shape={b.shape}")
        flat = b.reshape(-1, sd)
        if not np.array_equal(flat[:n], states):
            return verdict_fail("states-not-in-order", info)
        if npad and np.any(flat[n:] != 0):
            return verdict_fail("padding-not-zero-rows", info)
        # the same processor is used again with other dtypes (float first, then large integers): layout and values must hold
        for dt, base in ((np.float64, 0.5), (np.int32, 2**24 + 1)):
            st2 = (np.arange(n * sd, dtype=np.int64).reshape(n, sd) + base).astype(dt) if dt is np.int32 else \
                (np.arange(n * sd, dtype=np.float64).reshape(n, sd) + base)
            try:
                b2 = np.asarray(bp.prepare_batches(jnp.asarray(st2)))
            except Exception as e:
                return verdict_fail(sut_bucket(e), f"repeated prepare_batches raised {e!r}; {info}")
            f2 = b2.reshape(-1, sd)
            if b2.shape != (nd, nb, bs, sd) or not np.array_equal(f2[:n].astype(np.float64), np.asarray(jnp.asarray(st2)).astype(np.float64)) \
                    or (npad and np.any(f2[n:] != 0)):
                return verdict_fail("repeated-use-changes-layout-or-values", f"{info}; second/third prepare_batches call with dtype {np.dtype(dt).name}")
        for trailing in ((), (k,), (k, l)):
            size = nd * nb * bs * int(np.prod(trailing, dtype=np.int64))
            res = (np.arange(size, dtype=np.float64) + 0.5).reshape((nd, nb, bs) + trailing)
            try:
                u = np.asarray(bp.unbatch_results(jnp.asarray(res)))
            except Exception as e:
                return verdict_fail(sut_bucket(e), f"unbatch_results raised {e!r}; {info} trailing={trailing}")
            exp = res.reshape((-1,) + trailing)[:n]
            if u.shape != exp.shape or not np.array_equal(u, exp):
                return verdict_fail("unbatch-roundtrip", f"{info} trailing={trailing} got shape {u.shape}")
        classes.append("arrays")
    return verdict_ok(nontrivial=nontrivial, classes=classes)


def judge(case):
    return _judge(case["n"], case["mb"], case["D"], case.get("sd", 1), case.get("arrays", True),
                  case.get("k", 2), case.get("l", 3), case.get("default_devices", False),
                  case.get("backend", "jax"))


def enumerate_run(tier, shard, nshards):
    from collections import Counter

    N, M = (120, 70) if tier == "quick" else (400, 200)
    n_eval = n_nt = 0
    classes = Counter()
    samples, failures, seen = [], [], set()
    # default device count clause under this shard's emulated device count
    expect = int(os.environ.get("VF_EXPECT_DEVICES", "1"))
    for n, mb in ((1, 1), (5, 2), (7, 64), (64, 64), (130, 64), (200, 7)):
        v = _judge(n, mb, expect, default_devices=True)
        n_eval += 1
        classes[f"default-devices-{expect}"] += 1
        if not v["ok"] and v["bucket"] not in seen:
            seen.add(v["bucket"])
            failures.append(dict(case=dict(n=n, mb=mb, D=expect, default_devices=True), verdict=v))
    idx = 0
    for n in range(1, N + 1):
        for mb in range(1, M + 1):
            idx += 1
            if idx % nshards != shard:
                continue
            for D in range(1, 9):
                sd = 1 + (n + mb + D) % 3
                real = (n <= 16 and mb <= 8) or (n * 131 + mb * 17 + D) % 67 == 0
                v = _judge(n, mb, D, sd=sd, k=1 + (n % 3), l=1 + (mb % 2), backend="jax" if real else "numpy")
                n_eval += 1
                for c in v["classes"]:
                    classes[c] += 1
                if v["ok"]:
                    if v["nontrivial"]:
                        n_nt += 1
                        if len(samples) < 3 and (n * 31 + mb * 7 + D) % 1013 == 0:
                            samples.append(dict(n=n, mb=mb, D=D, sd=sd))
                elif v["bucket"] not in seen:
                    seen.add(v["bucket"])
                    failures.append(dict(case=dict(n=n, mb=mb, D=D, sd=sd), verdict=v))
    return dict(evaluations=n_eval, distinct_nontrivial=n_nt, classes=dict(classes), samples=samples,
                failures=failures, exhaustive=True,
                box=f"n_states 1..{N} x max_batch_size 1..{M} x devices 1..8, trailing shapes (), (k,), (k,l)")


def strategy(tier, shard):
    from hypothesis import strategies as st

    @st.composite
    def triples(draw):
        big = draw(st.booleans())
        if big:
            n = draw(st.integers(1, 10**6))
            mb = draw(st.one_of(st.integers(1, 10**5), st.sampled_from([1, 63, 64, 65, 1024])))
            arrays = n <= 20000
        else:
            D0 = draw(st.integers(1, 8))
            bs0 = draw(st.integers(1, 300))
            nb0 = draw(st.integers(1, 6))
            # sizes around exact multiples of devices x batches x batch_size
            n = max(1, D0 * bs0 * nb0 + draw(st.integers(-2, 2)))
            mb = max(1, bs0 + draw(st.integers(-1, 1)))
            arrays = True
        D = draw(st.integers(1, 8))
        return dict(n=n, mb=mb, D=D, sd=draw(st.integers(1, 4)), arrays=arrays,
                    k=draw(st.integers(1, 3)), l=draw(st.integers(1, 3)),
                    backend=draw(st.sampled_from(["numpy", "numpy", "numpy", "jax"])))

    return triples()
