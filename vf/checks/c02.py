"""C02 — one sweep is the exact Bellman optimality backup; the policy is greedy."""

from __future__ import annotations

import numpy as np

from vf import ref_mdp
from vf.gen_mdp import mdp_specs, spec_classes, wide_specs
from vf.runner import sut_bucket, verdict_fail, verdict_ok

ID = "C02"
LEVEL = "exploration"
RULE = (
    "Hypothesis generates a tabular MDP (1..10 states, 1..4 actions, 1..4 events; three state encodings, 1-2 "
    "dimensional actions, 1-3 dimensional events, scalar or 1-element probabilities, duplicated / near-tie actions, "
    "absorbing states), a max_batch_size in 1..nS+3 and a list of (V, gamma) pairs with arbitrary finite V and gamma "
    "in [0,1] including exactly 0 and 1. One ValueIteration solver is built per MDP; for every pair the harness "
    "assigns solver.values/solver.gamma and calls solve(1). Oracle: numpy max_a sum_e p (r + gamma V[next]) at every "
    "state (|diff| <= 1e-9 (1+scale)); returned policy rows must be action vectors whose numpy Q attains the maximum; "
    "shift, monotonicity and contraction laws are checked on the implementation's own outputs; one pair per case is "
    "repeated on a solver constructed with that gamma. Shards run under 1, 2 or 3 emulated devices. Non-trivial = "
    "nA>=2, nE>=2, some (s,a) row with >=2 positive probabilities, some V non-constant; distinct = distinct case digest. "
    "One case in twelve is a WIDE MDP instead: 1..4 states and one axis (actions or events) of 1025..2049 entries, tables "
    "computed arithmetically from a few drawn coefficients; in two thirds of these the wide axis starts at 1, so the all-zero "
    "vector is not an action (event), and the problem answers any vector outside its own spaces with a poison reward "
    "(+1e9 x scale; probability 1 for a foreign event) - a phantom action or event invented by the solver (padding of an "
    "action or event axis) then shows in the swept values instead of aliasing a real one."
)
ASSUMPTIONS = [
    "a sweep is observed through documented attributes (values, gamma, solve(1)); equivalence with a solver "
    "constructed with that gamma is self-checked on every case",
    "float64 agreement tolerance 1e-9*(1+max|r|+gamma*max|V|)",
]


def plan(tier):
    def env(shard):
        k = (1, 1, 2, 3)[shard % 4]
        return {"XLA_FLAGS": f"--xla_force_host_platform_device_count={k}"}

    if tier == "quick":
        return dict(shards=16, examples=640, time_budget_s=420, min_nontrivial=60, env=env, shrink_cap_s=60)
    return dict(shards=16, examples=4800, time_budget_s=3300, min_nontrivial=320, env=env)


def strategy(tier, shard):
    from hypothesis import strategies as st

    @st.composite
    def cases(draw):
        if draw(st.integers(0, 11)) == 0:
            spec = draw(wide_specs())  # one axis beyond 1024 / 2048 entries (sizes past any internal chunk length)
        else:
            spec = draw(mdp_specs(max_states=10, allow_pol0=False))
        nS = spec["nS"]
        mbs = draw(st.one_of(st.integers(1, nS + 3), st.integers(1, max(1, nS // 2))))
        npairs = draw(st.integers(2, 6 if tier == "quick" else 10))
        pairs = []
        sc = spec["scale"]
        for _ in range(npairs):
            kind = draw(st.sampled_from(["int", "int", "big", "const", "onehot", "float"]))
            if kind == "int":
                V = [draw(st.integers(-20, 20)) * sc for _ in range(nS)]
            elif kind == "big":
                V = [draw(st.integers(-9, 9)) * 1e6 * sc for _ in range(nS)]
            elif kind == "const":
                V = [draw(st.integers(-5, 5)) * sc] * nS
            elif kind == "onehot":
                V = [0.0] * nS
                V[draw(st.integers(0, nS - 1))] = draw(st.integers(-50, 50)) * sc
            else:
                V = [draw(st.floats(-1e3, 1e3, allow_nan=False)) * sc for _ in range(nS)]
            gamma = draw(st.one_of(st.sampled_from([0.0, 1.0, 0.5, 0.99]), st.floats(0.0, 1.0).map(lambda x: round(x, 6))))
            c = draw(st.integers(-9, 9)) * 3.0 * sc
            dW = [draw(st.integers(0, 6)) * sc for _ in range(nS)]
            pairs.append(dict(V=V, gamma=gamma, c=c, dW=dW))
        return dict(spec=spec, mbs=mbs, pairs=pairs)

    return cases()


def judge(case):
    from vf import sut

    spec, mbs = case["spec"], case["mbs"]
    nS, nA, nE = spec["nS"], spec["nA"], spec["nE"]
    nxt, rew, prb = ref_mdp.arrays(spec)
    classes = spec_classes(spec) + [f"devices={sut.n_devices()}"]
    try:
        problem = sut.make_problem(spec)
        solver = sut.make_solver(problem, dict(solver="vi", gamma=0.5, eps=1e-3, mbs=mbs))
    except Exception as e:
        return verdict_fail(sut_bucket(e), f"construction raised {e!r}", classes=classes)
    if solver.n_pad > 0:
        classes.append("padded")
    if sut.layout(solver)[1] > 1:
        classes.append("multi-batch")
    rmax = float(np.max(np.abs(rew)))
    some_nonconst = False
    for i, pr in enumerate(case["pairs"]):
        V = np.asarray(pr["V"], dtype=np.float64)
        g = float(pr["gamma"])
        if g in (0.0, 1.0):
            classes.append(f"gamma={g:g}")
        some_nonconst |= bool(np.ptp(V) > 0)
        tol = 1e-9 * (1 + rmax + g * float(np.max(np.abs(V))))
        try:
            TV, pol = sut.sweep(solver, V, g)
        except Exception as e:
            return verdict_fail(sut_bucket(e), f"sweep raised {e!r} (pair {i})", classes=classes)
        ref, Q = ref_mdp.backup(spec, V, g)
        if TV.shape != (nS,):
            return verdict_fail("result-shape", f"values shape {TV.shape} != ({nS},)", classes=classes)
        if not np.all(np.isfinite(TV)) or np.max(np.abs(TV - ref)) > tol:
            s = int(np.argmax(np.abs(TV - ref)))
            return verdict_fail("sweep-not-bellman-backup",
                                f"pair {i} gamma={g} state {s}: got {TV[s]!r} expected {ref[s]!r} (tol {tol:.3g})",
                                classes=classes)
        # policy greedy for the returned values
        pidx = sut.policy_to_indices(spec, pol)
        if pol.shape[0] != nS or np.any(pidx < 0):
            return verdict_fail("policy-row-not-in-action-space", f"pair {i}: policy {pol.tolist()}", classes=classes)
        tol2 = 1e-9 * (1 + rmax + g * float(np.max(np.abs(TV))))
        gap, gaps = ref_mdp.greedy_ok(spec, TV, g, pidx, tol2)
        if gap > tol2:
            s = int(np.argmax(gaps))
            return verdict_fail("policy-not-greedy",
                                f"pair {i} gamma={g} state {s}: chosen action {int(pidx[s])} is {gap:.6g} below the maximum",
                                classes=classes)
        # metamorphic laws on the implementation's own outputs
        c = float(pr["c"])
        W = V + np.asarray(pr["dW"], dtype=np.float64)
        try:
            TVc, _ = sut.sweep(solver, V + c, g)
            TW, _ = sut.sweep(solver, W, g)
        except Exception as e:
            return verdict_fail(sut_bucket(e), f"sweep raised {e!r} (pair {i}, metamorphic)", classes=classes)
        tolm = 1e-9 * (1 + rmax + g * (float(np.max(np.abs(V))) + abs(c) + float(np.max(np.abs(W)))))
        if np.max(np.abs(TVc - (TV + g * c))) > tolm:
            return verdict_fail("shift-law", f"pair {i}: T(V+c) - TV - gamma c = {np.max(np.abs(TVc - TV - g * c)):.3g}",
                                classes=classes)
        if np.any(TW < TV - tolm):
            return verdict_fail("monotonicity-law", f"pair {i}: min(TW-TV) = {np.min(TW - TV):.3g} with W >= V", classes=classes)
        if np.max(np.abs(TW - TV)) > g * np.max(np.abs(W - V)) + tolm:
            return verdict_fail("contraction-law", f"pair {i}: |TW-TV|={np.max(np.abs(TW - TV)):.6g} > gamma |W-V|", classes=classes)
    # self-check of the observation route: constructed gamma vs assigned gamma (harness error if different)
    pr = case["pairs"][0]
    try:
        s2 = sut.make_solver(problem, dict(solver="vi", gamma=float(pr["gamma"]), eps=1e-3, mbs=mbs))
        a, _ = sut.sweep(s2, pr["V"], pr["gamma"])
        b, _ = sut.sweep(solver, pr["V"], pr["gamma"])
    except Exception as e:
        return verdict_fail(sut_bucket(e), f"construction with gamma={pr['gamma']} raised {e!r}", classes=classes)
    if not np.array_equal(a, b):
        from vf.runner import HarnessError

        raise HarnessError("assigned gamma and constructed gamma give different sweeps")
    many_pos = bool(np.any(np.sum(prb > 0, axis=2) >= 2))
    nontrivial = nA >= 2 and nE >= 2 and many_pos and some_nonconst
    sample = dict(nS=nS, nA=nA, nE=nE, enc=spec["enc"], mbs=mbs, layout=sut.layout(solver), n_pad=int(solver.n_pad),
                  gammas=[p["gamma"] for p in case["pairs"]], flags=spec["flags"], V0=case["pairs"][0]["V"])
    return verdict_ok(nontrivial=nontrivial, classes=sorted(set(classes)), sample=sample)
