"""C16 — shipped problems' event probabilities equal the documented distributions."""

from __future__ import annotations

import numpy as np
import scipy.stats

from vf import ref_problems as rp
from vf import shipped
from vf.runner import sut_bucket, verdict_fail, verdict_ok

ID = "C16"
LEVEL = "exploration"
RULE = (
    "Same parameter generator as C13 (smaller size cap). For each parameterisation the implementation's probability of "
    "EVERY state x action x event is compared (absolute tolerance 1e-5) with the documented distribution computed with "
    "scipy in float64: De Moor gamma(a=1/cv^2, scale=mean cv^2) CDF differences at half-integers with the tail folded "
    "into max_demand; Mirjalili nbinom(n, n/(n+delta)) censored at max_demand times the multinomial pmf with softmax of "
    "(0, c0 + c1 q) reversed onto the age ordering (zero unless the split sums to the order); Hendrix the joint law of "
    "(min(stock_a, d_a+u), min(stock_b, d_b)), u ~ Binomial((d_b-stock_b)^+, q), by brute-force summation to 1e-13 of "
    "the Poisson tails, with the Poisson mass beyond the model's truncation point added to the tolerance; Forest p / "
    "1-p / 1 / 0. Initial value estimates are compared with zero, or for Hendrix with the expected one-step revenue "
    "under the reference law. Non-trivial = Forest with 0<p<1, De Moor with censoring mass > 1e-6, Mirjalili with m>=2 "
    "and some c1 != 0, Hendrix with substitution strictly inside (0,1); distinct = distinct parameter set."
)
ASSUMPTIONS = [
    "absolute tolerance 1e-5: jax.scipy betaln inside numpyro's negative binomial is only ~2e-7 accurate for large "
    "arguments; every realistic modelling error moves some probability by >= 1e-3",
    "Hendrix truncation point read from the problem's max_demand attribute (default m*(maxQ+2) if absent)",
]

TOL = 1e-5


def plan(tier):
    if tier == "quick":
        return dict(shards=16, examples=128, time_budget_s=700, min_nontrivial=20, shrink_cap_s=120)
    return dict(shards=16, examples=1600, time_budget_s=3400, min_nontrivial=120)


def strategy(tier, shard):
    return shipped.case_strategy(cap=100_000 if tier == "quick" else 1_000_000)


def judge(case):
    import vf.sut  # noqa: F401
    import jax
    import jax.numpy as jnp

    kind, params = case["kind"], case["params"]
    classes = shipped.param_classes(kind, params)
    try:
        problem = shipped.build_sut(kind, params)
        t = shipped.sut_tables(problem, want=("prob",))
        iv = np.asarray(jax.jit(jax.vmap(problem.initial_value))(problem.state_space), dtype=np.float64).reshape(-1)
    except Exception as e:
        return verdict_fail(sut_bucket(e), f"{kind} {params}: raised {e!r}", classes=classes)
    ref = rp.REFS[kind](**params)
    S, A, E = ref.states(), ref.actions(), ref.events()
    p = t["prob"]
    if p.shape != (len(S), len(A), len(E)) or not np.array_equal(np.asarray(E), t["E"]) or not np.array_equal(np.asarray(S), t["S"]):
        return verdict_fail(f"{kind}:spaces-differ-from-documented", f"{params}: table {p.shape}", classes=classes)
    # reference table, built per factor
    exp = np.zeros_like(p)
    extra_tol = np.zeros((len(S), 1, 1))
    nontrivial = False
    if kind == "forest":
        for j, a in enumerate(A):
            for k, e in enumerate(E):
                exp[:, j, k] = ref.prob(S[0], a, e)
        nontrivial = 0 < params["p"] < 1
    elif kind == "de_moor":
        pm = ref.demand_pmf()
        exp[:, :, :] = pm[None, None, :]
        shape = 1.0 / ref.cov**2
        nontrivial = scipy.stats.gamma(a=shape, scale=ref.mean * ref.cov**2).sf(ref.D + 0.5) > 1e-6
        if nontrivial:
            classes.append("de_moor-censored")
    elif kind == "mirjalili":
        rec = {}
        for j, a in enumerate(A):
            rec[j] = np.array([ref.receipt_prob(a[0], e[1:]) for e in E])
        dem = {wd: np.array([ref.demand_pmf(wd)[e[0]] for e in E]) for wd in range(7)}
        for i, s in enumerate(S):
            for j in range(len(A)):
                exp[i, j, :] = dem[s[0]] * rec[j]
        nontrivial = ref.m >= 2 and any(c != 0 for c in ref.c1)
    else:  # hendrix
        trunc = int(getattr(problem, "max_demand", ref.trunc))
        tail = float(scipy.stats.poisson.sf(trunc - 1, ref.la) + scipy.stats.poisson.sf(trunc - 1, ref.lb))
        for i, s in enumerate(S):
            M, _ = ref.law(sum(s[: ref.m]), sum(s[ref.m:]))
            flat = np.array([M[e[0], e[1]] for e in E])
            exp[i, :, :] = flat[None, :]
        extra_tol[:] = tail
        if tail > 1e-6:
            classes.append("hendrix-truncation-tail>1e-6")
        nontrivial = 0 < ref.q < 1
    if abs(exp.sum(axis=2) - 1.0).max() > 1e-9:
        raise rp.RefError(f"reference distribution of {kind} does not sum to one")
    dev = np.abs(p - exp) - extra_tol
    if not np.all(np.isfinite(p)) or dev.max() > TOL:
        i = np.unravel_index(int(np.argmax(np.where(np.isfinite(dev), dev, np.inf))), p.shape)
        return verdict_fail(f"{kind}:probability-differs-from-documented-distribution",
                            f"{params}: state {S[i[0]]} action {A[i[1]]} event {E[i[2]]}: probability {p[i]!r}, documented "
                            f"distribution {exp[i]!r}", classes=classes)
    ive = np.array([ref.initial_value(s) for s in S])
    scale = 1.0
    itol = TOL
    if kind == "hendrix":
        scale = 1 + ref.pa * ref.max_stock_a + ref.pb * ref.max_stock_b
        itol = (TOL * len(E) * 0 + 1e-5 + float(extra_tol.max())) * scale
    if iv.shape != ive.shape or np.max(np.abs(iv - ive)) > itol:
        i = int(np.argmax(np.abs(iv - ive)))
        return verdict_fail(f"{kind}:initial-value-differs-from-documented",
                            f"{params}: state {S[i]}: initial value {iv[i]!r}, documented {ive[i]!r}", classes=classes)
    sample = dict(kind=kind, params=params, triples=int(p.size), max_abs_deviation=float(np.max(np.abs(p - exp))))
    return verdict_ok(nontrivial=bool(nontrivial), classes=classes, sample=sample)
