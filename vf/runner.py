"""Runner: tiers, seeds, sharding, evidence, VIOLATION lines, exit codes.

  ./check <ID> <quick|thorough>
  ./check <ID> --replay <file>

Exit codes: 0 = held on everything explored (possibly with KNOWN-FINDING lines),
1 = at least one VIOLATION line, 2 = harness error (never reported as a violation).

A check module (vf/checks/cXX.py) provides
  ID, LEVEL, RULE, ASSUMPTIONS
  plan(tier) -> dict(shards, examples, time_budget_s, min_nontrivial, [env(shard)->dict], [shrink_cap_s])
  strategy(tier, shard) -> hypothesis strategy of JSON-serialisable cases     (optional)
  judge(case) -> verdict dict: ok, bucket, detail, nontrivial, classes, [known], [sample]
  enumerate_run(tier, shard, nshards) -> summary dict                         (optional, exhaustive part)
"""

from __future__ import annotations

import hashlib
import importlib
import json
import os
import shutil
import subprocess
import sys
import time
import traceback
from collections import Counter
from pathlib import Path

ROOT = Path(__file__).resolve().parent.parent
WORK = ROOT / ".work"
EVID = ROOT / "evidence"
REPLAYS = ROOT / "replays"
KNOWN_FILE = ROOT / "known_findings.json"
REGRESS = REPLAYS / "regress"
if os.environ.get("VF_REPO_SRC"):
    # sensitivity experiment against a scratch worktree: never touch the committed evidence / replays
    EVID = WORK / "scratch-evidence"
    REPLAYS = WORK / "scratch-replays"


class HarnessError(Exception):
    """Raised when the harness itself (oracle self-check, generator, worker) is wrong."""


class _Abort(BaseException):
    """Leaves the Hypothesis engine at once (budget reached / shrink cap reached)."""


def _release_memory():
    """Long shards build hundreds of solvers, each with its own jitted closures: drop JAX's caches now and then."""
    import gc

    if "jax" in sys.modules:
        try:
            sys.modules["jax"].clear_caches()
        except Exception:
            pass
    gc.collect()


def canon(obj) -> str:
    return json.dumps(obj, sort_keys=True, separators=(",", ":"), default=_json_default)


def _json_default(o):
    import numpy as np

    if isinstance(o, (np.integer,)):
        return int(o)
    if isinstance(o, (np.floating,)):
        return float(o)
    if isinstance(o, np.ndarray):
        return o.tolist()
    if isinstance(o, (set, frozenset)):
        return sorted(o)
    return str(o)


def digest(obj) -> str:
    return hashlib.sha1(canon(obj).encode()).hexdigest()[:16]


def load_module(pid: str):
    return importlib.import_module(f"vf.checks.{pid.lower()}")


def seed_for(base: int, pid: str, shard: int, rnd: int = 0) -> int:
    h = hashlib.sha256(f"{base}:{pid}:{shard}:{rnd}".encode()).digest()
    return int.from_bytes(h[:8], "big") % (2**63)


# --------------------------------------------------------------------------------------
# known findings


def load_known(pid: str):
    if not KNOWN_FILE.exists():
        return {}, {}
    data = json.loads(KNOWN_FILE.read_text())
    known, fixed = {}, {}
    for e in data.get("findings", []):
        if e.get("property") != pid:
            continue
        (known if e.get("status") == "known" else fixed)[e["key"]] = e
    return known, fixed


def verdict_fail(bucket, detail, **kw):
    v = dict(ok=False, bucket=bucket, detail=str(detail)[:2000], nontrivial=True, classes=[])
    v.update(kw)
    return v


def verdict_ok(nontrivial=True, classes=(), **kw):
    v = dict(ok=True, bucket=None, detail="", nontrivial=bool(nontrivial), classes=list(classes))
    v.update(kw)
    return v


def sut_bucket(exc: BaseException) -> str:
    """Root-cause key for an exception raised by the code under test:
    exception type + innermost frame inside the mdpax package."""
    tb = traceback.extract_tb(exc.__traceback__)
    inner = None
    for fr in tb:
        if "/mdpax/" in fr.filename.replace("\\", "/"):
            inner = fr
    where = f"{Path(inner.filename).name}:{inner.name}" if inner else "outside-mdpax"
    return f"exc:{type(exc).__name__}@{where}"


# --------------------------------------------------------------------------------------
# shard process


def run_shard(pid: str, tier: str, shard: int, nshards: int, base_seed: int, workdir: Path):
    mod = load_module(pid)
    plan = mod.plan(tier)
    known, _fixed = load_known(pid)
    rec_path = workdir / f"shard-{shard}.jsonl"
    status = dict(shard=shard, error=None, budget_reached=False, failures=[], enum=None,
                  excluded_known=Counter(), rounds=0)
    t0 = time.time()
    budget = float(plan.get("time_budget_s", 600))
    shrink_cap = float(plan.get("shrink_cap_s", 60 if tier == "quick" else 280))
    per_shard = max(1, int(plan.get("examples", 0)) // nshards) if plan.get("examples") else 0
    recf = open(rec_path, "w")
    n_records = 0
    sample_every = max(1, per_shard // 8) if per_shard else 1

    def record(case, v):
        nonlocal n_records
        n_records += 1
        r = dict(d=digest(case), nt=bool(v.get("nontrivial")), cl=v.get("classes", []),
                 ok=bool(v["ok"]))
        if v.get("nontrivial") and (n_records % sample_every == 1 or sample_every == 1) and n_records < 10**6:
            r["sample"] = v.get("sample", case)
        recf.write(canon(r) + "\n")

    try:
        if hasattr(mod, "setup_shard"):
            mod.setup_shard(tier, shard, nshards)
        # exhaustive / enumerated part
        if hasattr(mod, "enumerate_run"):
            summ = mod.enumerate_run(tier, shard, nshards)
            fails = summ.pop("failures", [])
            status["enum"] = summ
            for f in fails:
                v = f["verdict"]
                if v.get("known") in known:
                    status["excluded_known"][v["known"]] += 1
                    continue
                status["failures"].append(dict(case=f["case"], verdict=v, shrunk=False))
        # generated part
        if per_shard and hasattr(mod, "strategy"):
            import hypothesis
            from hypothesis import HealthCheck, Phase, given, settings

            found_buckets: set[str] = set(f["verdict"]["bucket"] for f in status["failures"])
            remaining = per_shard
            rnd = 0
            while remaining > 0 and rnd < 4:
                st_ = dict(last_fail=None, t_fail=None, target=None, n=0)

                def body(case):
                    if time.time() - t0 > budget:
                        status["budget_reached"] = True
                        raise _Abort()
                    v = mod.judge(case)
                    st_["n"] += 1
                    if st_["n"] % 25 == 0:
                        _release_memory()
                    record(case, v)
                    if v["ok"]:
                        return
                    if v.get("known") in known:
                        status["excluded_known"][v["known"]] += 1
                        return
                    b = v["bucket"]
                    if b in found_buckets:
                        return
                    if st_["target"] is None:
                        st_["target"] = b
                        st_["t_fail"] = time.time()
                    if b != st_["target"]:
                        return
                    st_["last_fail"] = (case, v)
                    if time.time() - st_["t_fail"] > shrink_cap:
                        raise _Abort()
                    raise AssertionError(b)

                test = given(mod.strategy(tier, shard))(body)
                test = settings(
                    max_examples=remaining,
                    database=None,
                    deadline=None,
                    derandomize=False,
                    report_multiple_bugs=False,
                    suppress_health_check=list(HealthCheck),
                    phases=(Phase.generate, Phase.shrink),
                )(test)
                test = hypothesis.seed(seed_for(base_seed, pid, shard, rnd))(test)
                status["rounds"] += 1
                try:
                    test()
                except _Abort:
                    pass
                except AssertionError:
                    pass
                except hypothesis.errors.Flaky:
                    # the judged outcome changed between runs of the same case: keep the
                    # last failing case; the parent re-judges it before reporting
                    pass
                if st_["last_fail"] is None:
                    break
                case, v = st_["last_fail"]
                status["failures"].append(dict(case=case, verdict=v, shrunk=True))
                found_buckets.add(v["bucket"])
                remaining -= st_["n"]
                rnd += 1
                if status["budget_reached"]:
                    break
    except _Abort:
        pass
    except BaseException:
        status["error"] = traceback.format_exc()
    finally:
        try:
            if hasattr(mod, "teardown_shard"):
                mod.teardown_shard()
        except Exception:
            pass
        recf.close()
    status["excluded_known"] = dict(status["excluded_known"])
    status["wall_s"] = time.time() - t0
    (workdir / f"status-{shard}.json").write_text(canon(status))


# --------------------------------------------------------------------------------------
# parent


def _write_replay(pid: str, case, verdict) -> Path:
    REPLAYS.mkdir(parents=True, exist_ok=True)
    p = REPLAYS / f"{pid}-{digest(case)}.json"
    p.write_text(json.dumps(dict(property=pid, case=case, verdict=verdict), indent=1,
                            default=_json_default, sort_keys=True))
    return p


def run_regress(pid: str, mod, known, fixed, out):
    """Re-judge saved cases of every finding first (no Hypothesis involved)."""
    d = REGRESS / pid
    n = 0
    viol = []
    if not d.is_dir():
        return n, viol
    for f in sorted(d.glob("*.json")):
        data = json.loads(f.read_text())
        case = data["case"]
        key = data.get("finding_key")
        v = mod.judge(case)
        n += 1
        if key in known:
            if not v["ok"] and v.get("known") == key:
                out(f"KNOWN-FINDING: property={pid} {known[key]['what']} [{key}; {f.name}]")
            elif not v["ok"]:
                viol.append((f, case, v))
            # passes: no line (the defect is gone)
        else:
            # fixed (or unlisted) finding: the saved case must pass
            if not v["ok"]:
                viol.append((f, case, v))
    return n, viol


def main_check(pid: str, tier: str) -> int:
    t0 = time.time()
    base_seed = int(os.environ.get("VERIF_SEED", "1"))
    mod = load_module(pid)
    plan = mod.plan(tier)
    known, fixed = load_known(pid)
    nshards = int(plan.get("shards", 16))
    workdir = WORK / f"{pid}-{os.getpid()}"
    if workdir.exists():
        shutil.rmtree(workdir)
    workdir.mkdir(parents=True)
    lines = []

    def out(s):
        print(s, flush=True)
        lines.append(s)

    violations = []  # (replay path, verdict)
    try:
        n_reg, viol = run_regress(pid, mod, known, fixed, out)
    except Exception:
        print(traceback.format_exc(), file=sys.stderr)
        print(f"HARNESS-ERROR property={pid} regress tier failed", flush=True)
        return 2
    for f, case, v in viol:
        violations.append((f, v))

    procs = []
    for s in range(nshards):
        env = dict(os.environ)
        if "env" in plan:
            env.update(plan["env"](s))
        cmd = [sys.executable, "-m", "vf.runner", "--shard", pid, tier, str(s), str(nshards),
               str(base_seed), str(workdir)]
        logf = open(workdir / f"log-{s}.txt", "w")
        procs.append((s, subprocess.Popen(cmd, env=env, stdout=logf, stderr=subprocess.STDOUT,
                                          cwd=str(ROOT)), logf))
    harness_errors = []
    for s, p, logf in procs:
        rc = p.wait()
        logf.close()
        if rc != 0 or not (workdir / f"status-{s}.json").exists():
            tail = (workdir / f"log-{s}.txt").read_text()[-3000:]
            harness_errors.append(f"shard {s} exited {rc}: {tail}")

    evaluations = 0
    nontrivial = set()
    nt_enum = 0
    classes = Counter()
    samples = []
    excluded = Counter()
    budget_reached = False
    exhaustive = None
    enum_info = []
    failures = []
    for s in range(nshards):
        sp = workdir / f"status-{s}.json"
        if not sp.exists():
            continue
        stt = json.loads(sp.read_text())
        if stt.get("error"):
            harness_errors.append(f"shard {s}: {stt['error'][-3000:]}")
        budget_reached |= bool(stt.get("budget_reached"))
        for k, v in stt.get("excluded_known", {}).items():
            excluded[k] += v
        failures.extend(stt.get("failures", []))
        if stt.get("enum"):
            e = stt["enum"]
            evaluations += int(e.get("evaluations", 0))
            nt_enum += int(e.get("distinct_nontrivial", 0))
            for k, v in e.get("classes", {}).items():
                classes[k] += v
            samples.extend(e.get("samples", [])[:2])
            exhaustive = bool(e.get("exhaustive", False)) if exhaustive is None else (exhaustive and bool(e.get("exhaustive", False)))
            if "box" in e and e["box"] not in enum_info:
                enum_info.append(e["box"])
        rp = workdir / f"shard-{s}.jsonl"
        if rp.exists():
            with open(rp) as fh:
                for line in fh:
                    r = json.loads(line)
                    evaluations += 1
                    if r["nt"]:
                        nontrivial.add(r["d"])
                    for c in r["cl"]:
                        classes[c] += 1
                    if "sample" in r and len(samples) < 12:
                        samples.append(r["sample"])

    # failures: one replay per bucket (smallest case), re-judged in this process
    by_bucket = {}
    for f in failures:
        b = f["verdict"]["bucket"]
        if b not in by_bucket or len(canon(f["case"])) < len(canon(by_bucket[b]["case"])):
            by_bucket[b] = f
    for b, f in sorted(by_bucket.items()):
        p = _write_replay(pid, f["case"], f["verdict"])
        violations.append((p, f["verdict"]))

    distinct_nt = len(nontrivial) + nt_enum
    for p, v in violations:
        out(f"VIOLATION property={pid} replay={p}")
        out(f"  bucket={v.get('bucket')} detail={str(v.get('detail'))[:600]}")

    floor = int(plan.get("min_nontrivial", 2))
    if budget_reached:
        floor = 2  # a time budget hit is "inconclusive", never an error: only the evidence schema's minimum applies
    wall = time.time() - t0
    cov = dict(
        evaluations=int(evaluations + n_reg),
        distinct_nontrivial=int(distinct_nt),
        rule=mod.RULE,
        samples=samples[:8] if samples else [],
        classes=dict(sorted(classes.items())),
        excluded_by_known_finding=dict(excluded),
        regress_cases_rejudged=n_reg,
        budget_reached=budget_reached,
        shards=nshards,
    )
    if exhaustive is not None:
        cov["exhaustive"] = bool(exhaustive)
        cov["enumerated_boxes"] = enum_info
    ev = dict(
        property_id=pid,
        tier=tier,
        seed=base_seed,
        level=mod.LEVEL,
        coverage=cov,
        assumptions=list(getattr(mod, "ASSUMPTIONS", [])),
        wall_s=round(wall, 2),
        violations=len(violations),
    )
    EVID.mkdir(parents=True, exist_ok=True)
    (EVID / f"{pid}.json").write_text(json.dumps(ev, indent=1, default=_json_default))
    out(f"SUMMARY property={pid} tier={tier} seed={base_seed} evaluations={cov['evaluations']} "
        f"distinct_nontrivial={distinct_nt} violations={len(violations)} "
        f"excluded_known={sum(excluded.values())} budget_reached={budget_reached} wall_s={wall:.1f}")
    if classes:
        out("CLASSES " + " ".join(f"{k}={v}" for k, v in sorted(classes.items())))
    if not os.environ.get("VF_KEEP_WORK"):
        shutil.rmtree(workdir, ignore_errors=True)
    if violations:
        return 1
    if harness_errors:
        for h in harness_errors:
            print("HARNESS-ERROR " + h, file=sys.stderr, flush=True)
        return 2
    if distinct_nt < floor:
        print(f"HARNESS-ERROR property={pid} vacuity guard: distinct_nontrivial={distinct_nt} < floor {floor}",
              file=sys.stderr, flush=True)
        return 2
    return 0


def main_replay(pid: str, path: str) -> int:
    mod = load_module(pid)
    known, fixed = load_known(pid)
    data = json.loads(Path(path).read_text())
    case = data["case"] if "case" in data else data
    v = mod.judge(case)
    print(json.dumps(v, indent=1, default=_json_default))
    if v["ok"]:
        print(f"REPLAY property={pid} passed")
        return 0
    if v.get("known") in known:
        print(f"KNOWN-FINDING: property={pid} {known[v['known']]['what']} [{v['known']}]")
        return 0
    print(f"VIOLATION property={pid} replay={path}")
    return 1


def main(argv):
    if len(argv) >= 1 and argv[0] == "--shard":
        _, pid, tier, s, n, seed, wd = argv
        run_shard(pid, tier, int(s), int(n), int(seed), Path(wd))
        return 0
    if len(argv) == 3 and argv[1] == "--replay":
        return main_replay(argv[0].upper(), argv[2])
    if len(argv) == 2 and argv[1] in ("quick", "thorough"):
        return main_check(argv[0].upper(), argv[1])
    print(__doc__)
    return 2


if __name__ == "__main__":
    try:
        rc = main(sys.argv[1:])
    except SystemExit:
        raise
    except BaseException:
        print(traceback.format_exc(), file=sys.stderr)
        print("HARNESS-ERROR runner crashed", flush=True)
        rc = 2
    sys.exit(rc)
