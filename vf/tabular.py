"""Harness-owned, table-driven Problem subclasses built from a JSON-serialisable spec.

spec keys
  nS, nA, nE          sizes
  next[s][a][e]       successor state index
  reward[s][a][e]     immediate reward (float)
  prob[s][a][e]       event probability (rows over e sum to one)
  v0[s] | None        problem-supplied initial value estimates
  pol0[s] | None      problem-supplied initial policy (action index per state)
  enc                 vector encodings:
      state: "ravel"  (mixed-radix box starting at 0: the all-zero padding vector IS state 0)
             "offset" (box starting at 1 in every coordinate, clipping index: padding vector is NOT a state)
             "idcol"  (id+3 in the first column plus junk columns, clipping index: padding vector is NOT a state)
             "halfstep" (non-integer 1-vectors 0.25, 0.75, ...: float state space; padding vector is NOT a state)
      sdims: box widths for ravel/offset (product == nS); for idcol the number of junk columns + 1
      adims: action box widths (product == nA), dimension 1..2
      edims: event box widths (product == nE), dimension 1..3
      prob_shape: "scalar" | "array1" (1-element array, as De Moor returns)
      aoff / eoff: 0 | 1 (default 0). With 1 the action (event) vectors start at 1 in every coordinate, so the all-zero vector
             is NOT an action (event); the problem then answers a vector outside its space with a POISON outcome (reward
             +1e9*scale; for a foreign event also probability 1), so that any phantom action or event a solver invents
             (e.g. zero padding of an action or event axis) shows up in the values instead of aliasing a real one.
"""

from __future__ import annotations

import numpy as np


def _unravel(n, dims):
    return np.stack(np.unravel_index(np.arange(n), dims), axis=1).astype(np.int32)


def state_vectors(spec) -> np.ndarray:
    enc = spec["enc"]
    nS = spec["nS"]
    kind = enc["state"]
    if kind == "ravel":
        return _unravel(nS, enc["sdims"])
    if kind == "offset":
        return _unravel(nS, enc["sdims"]) + 1
    if kind == "halfstep":
        # non-integer state vectors: state i is the 1-vector [0.5 * i + 0.25] (float64)
        return (np.arange(nS, dtype=np.float64) * 0.5 + 0.25).reshape(nS, 1)
    if kind == "idcol":
        ncol = int(enc["sdims"][0])
        cols = [np.arange(nS, dtype=np.int32) + 3]
        for j in range(1, ncol):
            cols.append(((np.arange(nS) * (7 + j)) % 5 + j).astype(np.int32))
        return np.stack(cols, axis=1)
    raise ValueError(kind)


def action_vectors(spec) -> np.ndarray:
    return _unravel(spec["nA"], spec["enc"]["adims"]) + int(spec["enc"].get("aoff", 0))


def event_vectors(spec) -> np.ndarray:
    return _unravel(spec["nE"], spec["enc"]["edims"]) + int(spec["enc"].get("eoff", 0))


def make_problem(spec):
    """Build the Problem (requires jax x64 to be enabled already so that tables are float64)."""
    import jax.numpy as jnp
    from mdpax.core.problem import Problem

    enc = spec["enc"]
    nS, nA, nE = spec["nS"], spec["nA"], spec["nE"]
    S_np = state_vectors(spec)
    A_np = action_vectors(spec)
    E_np = event_vectors(spec)
    nxt = jnp.asarray(np.asarray(spec["next"], dtype=np.int32).reshape(nS, nA, nE))
    rew = jnp.asarray(np.asarray(spec["reward"], dtype=np.float64).reshape(nS, nA, nE))
    prb = jnp.asarray(np.asarray(spec["prob"], dtype=np.float64).reshape(nS, nA, nE))
    S_j = jnp.asarray(S_np)
    sdims = tuple(int(x) for x in enc["sdims"])
    adims = tuple(int(x) for x in enc["adims"])
    edims = tuple(int(x) for x in enc["edims"])
    kind = enc["state"]
    prob_shape = enc.get("prob_shape", "scalar")
    v0_np_dtype = np.int32 if enc.get("v0_dtype") == "int" else np.float64
    v0 = None if spec.get("v0") is None else jnp.asarray(np.asarray(spec["v0"], dtype=v0_np_dtype))
    pol0 = None if spec.get("pol0") is None else jnp.asarray(A_np[np.asarray(spec["pol0"], dtype=np.int64)])

    def s_index(state):
        if kind == "ravel":
            return jnp.ravel_multi_index(tuple(state), sdims, mode="clip")
        if kind == "offset":
            return jnp.ravel_multi_index(tuple(state - 1), sdims, mode="clip")
        if kind == "halfstep":
            return jnp.clip(jnp.round((state[0] - 0.25) * 2).astype(jnp.int32), 0, nS - 1)
        return jnp.clip(state[0] - 3, 0, nS - 1)

    aoff, eoff = int(enc.get("aoff", 0)), int(enc.get("eoff", 0))
    poison = 1e9 * float(spec.get("scale", 1.0))

    def a_index(action):
        return jnp.ravel_multi_index(tuple(action - aoff), adims, mode="clip")

    def e_index(event):
        return jnp.ravel_multi_index(tuple(event - eoff), edims, mode="clip")

    def foreign(action, event):
        # True when the action or the event vector lies outside the problem's own spaces (only possible with aoff/eoff)
        bad = jnp.zeros((), dtype=bool)
        if aoff:
            bad = bad | jnp.any(action < aoff) | jnp.any(action - aoff >= jnp.asarray(adims))
        if eoff:
            bad = bad | jnp.any(event < eoff) | jnp.any(event - eoff >= jnp.asarray(edims))
        return bad

    class Tabular(Problem):
        @property
        def name(self):
            return "vf_tabular"

        def _construct_state_space(self):
            return S_j

        def _construct_action_space(self):
            return jnp.asarray(A_np)

        def _construct_random_event_space(self):
            return jnp.asarray(E_np)

        def state_to_index(self, state):
            return s_index(state)

        def random_event_probability(self, state, action, random_event):
            p = prb[s_index(state), a_index(action), e_index(random_event)]
            if eoff:
                p = jnp.where(foreign(action, random_event), 1.0, p)
            if prob_shape == "array1":
                return p.reshape(1)
            return p

        def transition(self, state, action, random_event):
            s, a, e = s_index(state), a_index(action), e_index(random_event)
            if aoff or eoff:
                return S_j[nxt[s, a, e]], jnp.where(foreign(action, random_event), poison, rew[s, a, e])
            return S_j[nxt[s, a, e]], rew[s, a, e]

    if v0 is not None:
        def initial_value(self, state):
            return v0[s_index(state)]

        Tabular.initial_value = initial_value
    if pol0 is not None:
        def initial_policy(self, state):
            return pol0[s_index(state)]

        Tabular.initial_policy = initial_policy
    prob = Tabular()
    cfg_attr = enc.get("config_attr")
    if cfg_attr == "none":
        prob.config = None  # a problem whose config attribute exists but is None: not reconstructible
    elif cfg_attr == "target_none":
        from mdpax.core.problem import ProblemConfig

        prob.config = ProblemConfig(_target_=None)  # a config Hydra cannot instantiate (e.g. a notebook class): not reconstructible
    return prob


SOLVERS = {
    "vi": ("mdpax.solvers.value_iteration", "ValueIteration"),
    "pi": ("mdpax.solvers.policy_iteration", "PolicyIteration"),
    "rvi": ("mdpax.solvers.relative_value_iteration", "RelativeValueIteration"),
    "pvi": ("mdpax.solvers.periodic_value_iteration", "PeriodicValueIteration"),
    "sa": ("mdpax.solvers.semi_async_value_iteration", "SemiAsyncValueIteration"),
}


def solver_class(kind):
    import importlib

    mod, name = SOLVERS[kind]
    return getattr(importlib.import_module(mod), name)


def make_solver(problem, cfg, **extra):
    """cfg: dict(solver, gamma, eps, test, mbs, shuffle, seed, period, max_eval_iter, reset, clear)"""
    kind = cfg["solver"]
    kw = dict(epsilon=float(cfg["eps"]), max_batch_size=int(cfg.get("mbs", 1024)), verbose=0)
    if kind != "rvi":
        kw["gamma"] = float(cfg["gamma"])
    if kind in ("vi", "pi", "sa"):
        kw["convergence_test"] = cfg.get("test", "span")
    if kind == "sa":
        kw["shuffle_states"] = bool(cfg.get("shuffle", False))
        kw["random_seed"] = int(cfg.get("seed", 42))
    if kind == "pvi":
        kw["period"] = int(cfg["period"])
        kw["clear_value_history_on_convergence"] = bool(cfg.get("clear", True))
    if kind == "pi":
        kw["max_eval_iter"] = int(cfg.get("max_eval_iter", 100))
        kw["reset_values_for_each_policy_eval"] = bool(cfg.get("reset", False))
    via_config = extra.pop("via_config", False)
    kw.update(extra)
    cls = solver_class(kind)
    if via_config:
        # same parameters, passed as a configuration object together with the problem instance
        return cls(problem=problem, config=cls.Config(**kw))
    return cls(problem=problem, **kw)


def policy_to_indices(spec, policy) -> np.ndarray:
    """Map returned action vectors to action indices; -1 where the row is not in the action space."""
    A = action_vectors(spec)
    pol = np.asarray(policy)
    if pol.ndim == 1:
        pol = pol.reshape(-1, 1)
    out = np.full(len(pol), -1, dtype=np.int64)
    for i, row in enumerate(pol):
        if row.shape[0] != A.shape[1]:
            continue
        m = np.nonzero(np.all(A == row, axis=1))[0]
        if len(m):
            out[i] = m[0]
    return out
